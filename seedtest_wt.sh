#!/bin/bash
# usage: seedtest_wt.sh <dir with patch.diff> <ID> [tier] -- interim variant of seedtest.sh that leaves /repo alone: the change is applied
# in a scratch worktree and the check analyses that copy (--repo). The recorded seed matrix is produced by seedtest.sh on /repo itself.
P=$(realpath $1); ID=$2; TIER=${3:-quick}; N=$(basename $P)
W=/tmp/wt/st-$N
git -C /repo worktree remove --force $W 2>/dev/null
git -C /repo worktree add -q --detach $W HEAD || exit 9
trap 'git -C /repo worktree remove --force '$W' 2>/dev/null; rm -rf '$W EXIT
git -C $W apply "$P/patch.diff" || { echo "PATCH DOES NOT APPLY"; exit 9; }
cd /verif && ./vcheck $ID --tier $TIER --no-evidence --repo $W 2>&1 | grep -E "^\[|VIOLATION|what:|HARNESS|INCONCLUSIVE" | cut -c1-400 | head -14
echo "check-exit=${PIPESTATUS[0]}"
