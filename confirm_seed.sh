#!/bin/bash
# usage: confirm_seed.sh <dir with patch.diff + demo.py>  -- confirm a seeded change in a scratch worktree: demo passes without it,
# fails with it, and the pinned test suite result is unchanged. Prints one line of JSON.
P=$(realpath $1); N=$(basename $P)
W=/tmp/wt/confirm-$N
git -C /repo worktree remove --force $W 2>/dev/null
git -C /repo worktree add -q --detach $W HEAD || exit 9
trap 'git -C /repo worktree remove --force '$W' 2>/dev/null; rm -rf '$W EXIT
cd $W
PYTHONPATH=$W NUMBA_CACHE_DIR=$W/.nb timeout 900 /venv/bin/python $P/demo.py >/tmp/wt/$N.demo0.log 2>&1; D0=$?
git apply $P/patch.diff || { echo "{\"seed\":\"$N\",\"error\":\"patch does not apply\"}"; exit 1; }
PYTHONPATH=$W NUMBA_CACHE_DIR=$W/.nb timeout 900 /venv/bin/python $P/demo.py >/tmp/wt/$N.demo1.log 2>&1; D1=$?
NUMBA_CACHE_DIR=$W/.nb timeout 1800 /venv/bin/python -m pytest -q -p no:cacheprovider --timeout=900 --continue-on-collection-errors tests > /tmp/wt/$N.tests.log 2>&1
T=$(tail -1 /tmp/wt/$N.tests.log)
F=$(grep -E "^FAILED|^ERROR" /tmp/wt/$N.tests.log | tr '\n' ';')
echo "{\"seed\":\"$N\",\"demo_unpatched_exit\":$D0,\"demo_patched_exit\":$D1,\"tests\":\"$T\",\"failed\":\"$F\"}"
