#!/bin/bash
# usage: seedtest.sh <dir with patch.diff> <ID> [tier]  -- apply a seeded change to /repo, run the check, undo it straight afterwards
P=$(realpath $1); ID=$2; TIER=${3:-quick}
cd /repo || exit 9
if ! git diff --quiet; then echo "/repo has uncommitted changes; refusing"; exit 9; fi
git apply "$P/patch.diff" || { echo "PATCH DOES NOT APPLY"; exit 9; }
trap 'git -C /repo checkout -- .' EXIT
cd /verif && ./vcheck $ID --tier $TIER --no-evidence 2>&1 | grep -E "^\[|VIOLATION|what:|HARNESS|INCONCLUSIVE" | cut -c1-400 | head -14
echo "check-exit=${PIPESTATUS[0]}"
