#!/bin/bash
# Build the overlay venv used by every check: /venv's packages + /repo + z3-solver + crosshair-tool
# from the offline wheelhouse. Idempotent; safe to call from every check.
set -e
cd "$(dirname "$0")"
V=/verif/.venv
if [ -x "$V/bin/python" ] && "$V/bin/python" -c "import z3, crosshair, pandas" 2>/dev/null; then
  exit 0
fi
(
  flock 9
  if [ -x "$V/bin/python" ] && "$V/bin/python" -c "import z3, crosshair, pandas" 2>/dev/null; then exit 0; fi
  rm -rf "$V"
  /venv/bin/python -m venv "$V"
  SP=$("$V/bin/python" -c "import sysconfig; print(sysconfig.get_paths()['purelib'])")
  printf '/venv/lib/python3.12/site-packages\n/repo\n' > "$SP/overlay.pth"
  PIP_NO_INDEX=1 "$V/bin/pip" install -q --no-index --find-links /opt/veriftools/wheels z3-solver crosshair-tool >/dev/null
  "$V/bin/python" -c "import z3, crosshair, pandas, numba; print('verif venv ready: z3', z3.get_version_string())"
) 9>/verif/.venv.lock
