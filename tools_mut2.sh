#!/bin/bash
# usage: tools_mut2.sh <ID> <relfile> <old> <new> [occurrence(1-based)] [tier]
set -e
ID=$1; F=$2; OLD=$3; NEW=$4; OCC=${5:-1}; TIER=${6:-quick}
D=$(mktemp -d /var/tmp/outrank-mut.XXXXXX)
trap 'rm -rf "$D"' EXIT
rsync -a --exclude .git --exclude '__pycache__' --exclude '*.egg-info' /repo/ "$D/"
python3 - "$D/$F" "$OLD" "$NEW" "$OCC" <<'P'
import sys
p, old, new, occ = sys.argv[1], sys.argv[2], sys.argv[3], int(sys.argv[4])
s = open(p).read()
i = -1
for _ in range(occ):
    i = s.index(old, i + 1)
s = s[:i] + new + s[i + len(old):]
open(p, 'w').write(s)
P
diff <(cat /repo/$F) "$D/$F" | head -6
cd /verif && NUMBA_CACHE_DIR=$D/.nbcache ./vcheck $ID --tier $TIER --repo "$D" --no-evidence 2>&1 | grep -E "^\[|VIOLATION|what:|HARNESS|INCONCLUSIVE" | cut -c1-400 | head -8
