"""generic glue for CrossHair-based harnesses: one job per condition function of a ch_* module"""
from __future__ import annotations

from . import chrun, loader


def make(module, conds, timeouts, record):
    def jobs(tier):
        return [{'cond': c, 'weight': 10, 'label': c} for c in conds]

    def run_job(job):
        fname = job['cond'] + ('_twin' if job.get('twin') else '')
        r = chrun.run_condition(module, fname, timeouts[job['tier']], loader.REPO, extra_env={'CH_EXTRA': '1' if job['tier'] == 'thorough' else '0'})
        for rel, names in record:
            loader.record_functions(rel, names)
        return chrun.job_result(job, r, fname)
    return jobs, run_job


def call_args(w):
    c = w['call']
    return list(c['args']), dict(c['kwargs'])
