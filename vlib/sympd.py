"""List-backed pandas stand-in (only what the anchored outrank code touches).

Contract: row order preserved; groupby keys in sorted order; median of an even group = mean of the middle two; sort_values is
stable. Values are never inspected except through Python operators (==, <, +, ...), so they may be symx values (SReal/SInt) or
CrossHair symbolic strings. Validated differentially against the real pandas on concrete frames at the start of every check that uses it (vlib/selfcheck.py).
"""
from __future__ import annotations


def _lt(a, b):
    return a < b


def _tostr(v):
    """str(v); symbolic values provide their own symbolic string form"""
    if isinstance(v, str):
        return v
    f = getattr(v, '__symstr__', None)
    return f() if f is not None else str(v)


def _len(v):
    f = getattr(v, 'symlen', None)
    return f() if f is not None else len(v)


def stable_sort(items, key, reverse=False):
    """insertion sort using only `<` on keys (comparisons on symbolic values fork); stable in both directions"""
    items = list(items)
    for i in range(1, len(items)):
        j = i
        while j > 0 and ((_lt(key(items[j - 1]), key(items[j]))) if reverse else (_lt(key(items[j]), key(items[j - 1])))):
            items[j], items[j - 1] = items[j - 1], items[j]
            j -= 1
    return items


def median(vals):
    s = stable_sort(list(vals), key=lambda x: x)
    n = len(s)
    if n == 0:
        return float('nan')
    if n % 2:
        return s[n // 2]
    return (s[n // 2 - 1] + s[n // 2]) / 2


class _StrAcc:
    def __init__(self, s):
        self.s = s

    def contains(self, pat):
        return Series([pat in v for v in self.s.data], self.s.index, self.s.name)

    def len(self):
        return Series([_len(v) for v in self.s.data], self.s.index, self.s.name)

    def cat(self, others=None, sep=''):
        if others is None:
            return sep.join(self.s.data)
        if isinstance(others, Series):
            others = [others]
        cols = [list(o.data) if isinstance(o, Series) else list(o) for o in others]
        out = []
        for i, v in enumerate(self.s.data):
            acc = v
            for c in cols:
                acc = acc + sep + c[i]        # built with + so that symbolic strings work
            out.append(acc)
        return Series(out, self.s.index, self.s.name)

    def replace(self, a, b):
        return Series([v.replace(a, b) for v in self.s.data], self.s.index, self.s.name)

    def split(self, sep=None):
        return Series([v.split(sep) for v in self.s.data], self.s.index, self.s.name)


class Series:
    def __init__(self, data, index=None, name=None):
        if isinstance(data, Series):
            index = data.index if index is None else index
            data = data.data
        self.data = list(data)
        self.index = list(index) if index is not None else list(range(len(self.data)))
        self.name = name

    def __len__(self):
        return len(self.data)

    def __iter__(self):
        return iter(self.data)

    @property
    def values(self):
        return Values(self.data)

    @property
    def str(self):
        return _StrAcc(self)

    @property
    def shape(self):
        return (len(self.data),)

    def tolist(self):
        return list(self.data)

    def to_list(self):
        return list(self.data)

    def to_numpy(self, *a, **k):
        return Values(self.data)

    def copy(self):
        return Series(self.data, self.index, self.name)

    def astype(self, t):
        if t is str or t == 'str':
            return Series([_tostr(v) for v in self.data], self.index, self.name)
        if t == 'category':
            return self.copy()
        return Series([t(v) for v in self.data], self.index, self.name)

    def unique(self):
        out = []
        for v in self.data:
            if not any(v == o for o in out):
                out.append(v)
        return Values(out)

    def apply(self, f):
        return Series([f(v) for v in self.data], self.index, self.name)

    map = apply

    def min(self):
        m = self.data[0]
        for v in self.data[1:]:
            m = v if v < m else m
        return m

    def max(self):
        m = self.data[0]
        for v in self.data[1:]:
            m = v if m < v else m
        return m

    def _bin(self, o, f):
        if isinstance(o, Series):
            return Series([f(a, b) for a, b in zip(self.data, o.data)], self.index, self.name)
        return Series([f(a, o) for a in self.data], self.index, self.name)

    def __add__(self, o):
        return self._bin(o, lambda a, b: a + b)

    def __radd__(self, o):
        return self._bin(o, lambda a, b: b + a)

    def __iadd__(self, o):
        # pandas Series += is IN PLACE: every alias of the object sees the change
        self.data = self._bin(o, lambda a, b: a + b).data
        return self

    def __sub__(self, o):
        return self._bin(o, lambda a, b: a - b)

    def __mul__(self, o):
        return self._bin(o, lambda a, b: a * b)

    def __truediv__(self, o):
        return self._bin(o, lambda a, b: a / b)

    def __eq__(self, o):
        return self._bin(o, lambda a, b: a == b)

    def __ne__(self, o):
        return self._bin(o, lambda a, b: a != b)

    __hash__ = None

    def __getitem__(self, k):
        if isinstance(k, Series):
            keep = [i for i, c in enumerate(k.data) if c]
            return Series([self.data[i] for i in keep], [self.index[i] for i in keep], self.name)
        if isinstance(k, str):
            return self.data[self.index.index(k)]
        return self.data[k]

    def count(self, x):
        return sum(1 for v in self.data if v == x)

    def mean(self):
        return _sum(self.data) / len(self.data)

    def sum(self):
        return _sum(self.data)

    def median(self):
        return median(self.data)

    def sort_values(self, ascending=True):
        order = stable_sort(list(range(len(self.data))), key=lambda k: self.data[k], reverse=not ascending)
        return Series([self.data[k] for k in order], [self.index[k] for k in order], self.name)

    def drop_duplicates(self):
        out, idx = [], []
        for i, v in zip(self.index, self.data):
            if not any(v == o for o in out):
                out.append(v)
                idx.append(i)
        return Series(out, idx, self.name)

    def nunique(self):
        return len(self.unique())

    def isin(self, vals):
        return Series([any(v == o for o in vals) for v in self.data], self.index, self.name)


class Values(list):
    """what `.values` returns: a list with tolist()/reshape"""

    def tolist(self):
        return list(self)

    def reshape(self, *a):
        return self


class Row:
    def __init__(self, cols, vals):
        self.cols, self.vals = cols, vals

    def __getitem__(self, k):
        return self.vals[self.cols.index(k)]

    def __getattr__(self, k):
        if k in ('cols', 'vals'):
            raise AttributeError(k)
        return self.vals[self.cols.index(k)]

    @property
    def values(self):
        return Values(self.vals)

    def __str__(self):
        return ' '.join(str(v) for v in self.vals)


class _Cols(list):
    def tolist(self):
        return list(self)


class _GroupBy:
    def __init__(self, df, by, as_index=True, sort=True):
        self.df, self.by, self.as_index, self.sort = df, ([by] if isinstance(by, str) else list(by)), as_index, sort

    def _groups(self):
        keys, rows = [], []
        bi = [self.df.columns.index(b) for b in self.by]
        for r in self.df.rows:
            k = tuple(r[i] for i in bi)
            for gi, gk in enumerate(keys):
                if gk == k:
                    rows[gi].append(r)
                    break
            else:
                keys.append(k)
                rows.append([r])
        if not self.sort:
            return list(zip(keys, rows))      # sort=False: groups in order of first appearance
        order = stable_sort(list(range(len(keys))), key=lambda i: keys[i])
        return [(keys[i], rows[i]) for i in order]

    def _agg(self, f):
        others = [c for c in self.df.columns if c not in self.by]
        oi = [self.df.columns.index(c) for c in others]
        out = []
        for k, rs in self._groups():
            out.append(list(k) + [f([r[i] for r in rs]) for i in oi])
        return DataFrame(out, columns=self.by + others)

    def median(self):
        return self._agg(median)

    def mean(self):
        return self._agg(lambda v: _sum(v) / len(v))

    def sum(self):
        return self._agg(_sum)

    def max(self):
        return self._agg(lambda v: Series(v).max())

    def min(self):
        return self._agg(lambda v: Series(v).min())

    def first(self):
        return self._agg(lambda v: v[0])

    def last(self):
        return self._agg(lambda v: v[-1])

    def count(self):
        return self._agg(len)

    def agg(self, f):
        return {'median': self.median, 'mean': self.mean, 'sum': self.sum, 'max': self.max, 'min': self.min, 'first': self.first, 'last': self.last, 'count': self.count}[f]()

    aggregate = agg


def _sum(v):
    t = v[0]
    for x in v[1:]:
        t = t + x
    return t


class DataFrame:
    def __init__(self, data=None, columns=None, index=None):
        if isinstance(data, DataFrame):
            columns, data = list(data.columns), [list(r) for r in data.rows]
        if data is None:
            data = []
        if isinstance(data, dict):
            cols = list(data.keys())
            colv = [list(v.data) if isinstance(v, Series) else list(v) for v in data.values()]
            n = max([len(v) for v in colv], default=0)
            self.columns = _Cols(cols)
            self.rows = [[cv[i] for cv in colv] for i in range(n)]
        elif data and isinstance(data[0], dict):
            cols = []
            for d in data:
                for k in d:
                    if k not in cols:
                        cols.append(k)
            self.columns = _Cols(cols)
            self.rows = [[d.get(c) for c in cols] for d in data]
        else:
            self.rows = [list(r) for r in data]
            if columns is None:
                columns = list(range(len(self.rows[0]))) if self.rows else []
            self.columns = _Cols(columns)
        if columns is not None and not isinstance(data, dict):
            self.columns = _Cols(columns)
        self.index = list(index) if index is not None else list(range(len(self.rows)))

    @property
    def shape(self):
        return (len(self.rows), len(self.columns))

    @property
    def empty(self):
        return len(self.rows) == 0 or len(self.columns) == 0

    def __len__(self):
        return len(self.rows)

    def __iter__(self):
        return iter(self.columns)

    def copy(self):
        return DataFrame([list(r) for r in self.rows], columns=list(self.columns), index=list(self.index))

    def astype(self, t):
        d = self.copy()
        if t is str or t == 'str':
            d.rows = [[_tostr(v) for v in r] for r in d.rows]
        return d

    def _col(self, c):
        i = self.columns.index(c)
        return Series([r[i] for r in self.rows], self.index, c)

    def __getitem__(self, k):
        if isinstance(k, list):
            idx = [self.columns.index(c) for c in k]
            return DataFrame([[r[i] for i in idx] for r in self.rows], columns=list(k), index=self.index)
        if isinstance(k, Series):
            keep = [i for i, c in enumerate(k.data) if c]
            return DataFrame([self.rows[i] for i in keep], columns=list(self.columns), index=[self.index[i] for i in keep])
        if k not in self.columns:
            raise KeyError(k)
        return self._col(k)

    def __getattr__(self, k):
        if k in ('columns', 'rows', 'index'):
            raise AttributeError(k)
        if k in self.columns:
            return self._col(k)
        raise AttributeError(k)

    def __setitem__(self, k, v):
        vals = list(v.data) if isinstance(v, Series) else (list(v) if isinstance(v, (list, tuple, Values)) else [v] * len(self.rows))
        if k in self.columns:
            i = self.columns.index(k)
            for r, x in zip(self.rows, vals):
                r[i] = x
        else:
            self.columns.append(k)
            for r, x in zip(self.rows, vals):
                r.append(x)

    def iterrows(self):
        for ix, r in zip(self.index, self.rows):
            yield ix, Row(list(self.columns), list(r))

    def itertuples(self):
        for ix, r in zip(self.index, self.rows):
            yield Row(['Index'] + list(self.columns), [ix] + list(r))

    @property
    def values(self):
        return Values([Values(r) for r in self.rows])

    def to_numpy(self, *a, **k):
        return self.values

    def groupby(self, by, as_index=True, sort=True):
        return _GroupBy(self, by, as_index, sort)

    def reset_index(self, drop=False):
        d = self.copy()
        d.index = list(range(len(d.rows)))
        return d

    def sort_values(self, by, ascending=True):
        by = by[0] if isinstance(by, list) else by
        i = self.columns.index(by)
        order = stable_sort(list(range(len(self.rows))), key=lambda k: self.rows[k][i], reverse=not ascending)
        return DataFrame([self.rows[k] for k in order], columns=list(self.columns), index=[self.index[k] for k in order])

    def drop_duplicates(self, subset=None, keep='first', ignore_index=False, inplace=False):
        if keep != 'first' or inplace:
            from .symx import ShimUnsupported
            raise ShimUnsupported('drop_duplicates(keep/inplace)')
        if isinstance(subset, str):
            subset = [subset]
        cols = [self.columns.index(c) for c in (subset or self.columns)]
        keep, seen = [], []
        for i, r in enumerate(self.rows):
            k = [r[c] for c in cols]
            if not any(all(a == b for a, b in zip(k, s_)) for s_ in seen):
                seen.append(k)
                keep.append(i)
        return DataFrame([self.rows[i] for i in keep], columns=list(self.columns), index=None if ignore_index else [self.index[i] for i in keep])

    def head(self, n=5):
        return DataFrame(self.rows[:n], columns=list(self.columns), index=self.index[:n])

    def to_csv(self, path, sep=',', index=True):
        WRITTEN[str(path)] = {'columns': list(self.columns), 'rows': [list(r) for r in self.rows], 'index': index}

    def mean(self):
        raise NotImplementedError


WRITTEN = {}


def concat(frames, axis=0, join='outer', **kw):
    frames = [f if isinstance(f, DataFrame) else DataFrame({f.name: list(f.data)}, index=list(f.index) if getattr(f, 'index', None) is not None else None) for f in frames]
    if axis == 1 and frames and any(list(f.index) != list(frames[0].index) for f in frames[1:]):
        # pandas aligns the rows of the pieces on their index LABELS: union of the labels (outer) or their intersection (inner)
        if join == 'inner':
            labels = [l for l in frames[0].index if all(l in f.index for f in frames[1:])]
        else:
            labels = []
            for f in frames:
                labels += [l for l in f.index if l not in labels]
        cols, rows = [], [[] for _ in labels]
        for f in frames:
            cols += list(f.columns)
            pos = {l: i for i, l in enumerate(f.index)}
            for k, l in enumerate(labels):
                rows[k] += list(f.rows[pos[l]]) if l in pos else [float('nan')] * len(f.columns)
        return DataFrame(rows, columns=cols, index=labels)
    if axis == 1:
        cols, n = [], max([len(f.rows) for f in frames], default=0)
        rows = [[] for _ in range(n)]
        for f in frames:
            cols += list(f.columns)
            for i in range(n):
                rows[i] += list(f.rows[i]) if i < len(f.rows) else [None] * len(f.columns)
        return DataFrame(rows, columns=cols, index=frames[0].index if frames else None)
    cols = list(frames[0].columns)
    rows = []
    for f in frames:
        rows += [list(r) for r in f.rows]
    return DataFrame(rows, columns=cols)


def set_option(*a, **k):
    pass


def read_csv(path, sep=',', **k):
    d = WRITTEN[str(path)]
    return DataFrame([list(r) for r in d['rows']], columns=list(d['columns']))
