"""Job scheduling, replay, known findings, evidence."""
from __future__ import annotations

import hashlib
import json
import multiprocessing as mp
import os
import sys
import time
import traceback

from . import loader

VERIF = os.path.dirname(os.path.dirname(os.path.abspath(__file__)))
MP = mp.get_context('fork')


def _child(fn, arg, conn):
    try:
        r = fn(arg)
        conn.send(('ok', r))
    except BaseException as e:  # noqa
        conn.send(('err', ''.join(traceback.format_exception(type(e), e, e.__traceback__))[-4000:]))
    finally:
        conn.close()


def run_parallel(fn, args, nproc, hard_timeout):
    """run fn(arg) for every arg in its own forked process; returns list of ('ok'|'err'|'timeout', value)"""
    results = [None] * len(args)
    pending = list(enumerate(args))
    running = {}
    while pending or running:
        while pending and len(running) < nproc:
            i, a = pending.pop(0)
            pc, cc = MP.Pipe(duplex=False)
            p = MP.Process(target=_child, args=(fn, a, cc))
            p.start()
            cc.close()
            running[i] = (p, pc, time.time())
        done = []
        for i, (p, pc, t0) in running.items():
            if pc.poll(0):
                try:
                    results[i] = pc.recv()
                except EOFError:
                    results[i] = ('err', 'worker died without a result')
                p.join()
                done.append(i)
            elif not p.is_alive():
                results[i] = ('err', f'worker exited with code {p.exitcode}')
                done.append(i)
            elif time.time() - t0 > hard_timeout:
                p.kill()
                p.join()
                results[i] = ('timeout', hard_timeout)
                done.append(i)
        for i in done:
            running.pop(i)
        if not done:
            time.sleep(0.02)
    return results


def _replay_child(arg):
    H, w = arg
    return H.replay(w)


def replay_in_subprocess(H, witness, timeout=600):
    r = run_parallel(_replay_child, [(H, witness)], 1, timeout)[0]
    if r[0] == 'ok':
        return r[1]
    return {'reproduced': False, 'error': str(r[1])}


def load_known():
    p = os.path.join(VERIF, 'known_findings.json')
    if not os.path.exists(p):
        return []
    return json.load(open(p)).get('findings', [])


def _job_runner(arg):
    H, job = arg
    t0 = time.time()
    r = H.run_job(job)
    r.setdefault('cond', job.get('cond'))
    r['wall_s'] = round(time.time() - t0, 2)
    r['fns'] = list(loader.ENCODED)
    return r


def run_check(H, pid, tier, seed, nproc, write_evidence=True, only=None):
    t0 = time.time()
    info = H.INFO
    jobs = H.jobs(tier)
    if only:
        jobs = [j for j in jobs if j['cond'] in only]
    budget = info.get('job_timeout', {}).get(tier, 600 if tier == 'quick' else 3600)
    # vacuity twins: one per condition, must produce a candidate
    twins = []
    seen_c = set()
    for j in jobs:
        if j['cond'] not in seen_c and not j.get('no_twin'):
            seen_c.add(j['cond'])
            twins.append(dict(j, twin=True))
    for j in jobs + twins:
        j.setdefault('tier', tier)
        j.setdefault('seed', seed)
        j['deadline_s'] = budget
    # longest first
    order = sorted(range(len(jobs)), key=lambda i: -jobs[i].get('weight', 1))
    alljobs = [jobs[i] for i in order] + twins
    res = run_parallel(_job_runner, [(H, j) for j in alljobs], nproc, budget + 120)
    job_res, twin_res = res[:len(jobs)], res[len(jobs):]

    harness_errors = []
    inconclusive = []
    tot = dict(paths=0, decisions=0, queries=0, solver_s=0.0, obligations=0, discharged=0, validated=0)
    conds = {}
    samples = []
    candidates = []
    cert_ok = True
    fns = []
    for j, (st, r) in zip(alljobs, job_res):
        c = j['cond']
        cd = conds.setdefault(c, dict(jobs=0, paths=0, queries=0, obligations=0, discharged=0, solver_s=0.0, wall_s=0.0, complete=True))
        cd['jobs'] += 1
        if st == 'timeout':
            inconclusive.append(f'{c}: job {j.get("label", "")} exceeded {r}s (no verdict)')
            cd['complete'] = False
            cert_ok = False
            continue
        if st == 'err':
            harness_errors.append(f'{c}: {r}')
            continue
        if r.get('error'):
            harness_errors.append(f'{c}: {r["error"]}')
        for k in tot:
            tot[k] += r.get(k, 0)
        for k in ('paths', 'queries', 'obligations', 'discharged', 'solver_s', 'wall_s'):
            cd[k] = round(cd[k] + r.get(k, 0), 2)
        for s in r.get('inconclusive', []):
            inconclusive.append(f'{c}: {s}')
        cert = r.get('cert', {})
        if not cert.get('ok', False):
            cert_ok = False
            cd['complete'] = False
            inconclusive.append(f'{c}: coverage certificate failed/incomplete {cert}')
        cd.setdefault('cert_kinds', [])
        if cert.get('kind') and cert.get('kind') not in cd['cert_kinds']:
            cd['cert_kinds'].append(cert.get('kind'))
        if len(samples) < 12:
            samples += r.get('samples', [])[:2]
        for cand in r.get('candidates', []):
            cand.setdefault('cond', c)
            candidates.append(cand)
        for f in r.get('fns', []):
            if f not in fns:
                fns.append(f)
    vac = {}
    for j, (st, r) in zip(twins, twin_res):
        ok = st == 'ok' and bool(r.get('candidates')) and not r.get('error')
        vac[j['cond']] = ok
        if not ok:
            harness_errors.append(f'vacuity twin of {j["cond"]} produced no witness ({st}: {str(r)[:300]})')
        elif st == 'ok':
            tot['queries'] += r.get('queries', 0)

    # replay candidates against the real build, dedupe by signature
    known = [k for k in load_known() if k['property'] == pid]
    open_sigs = {k['signature']: k for k in known if k.get('status') == 'open'}
    reproduced = {}
    spurious = 0
    MAXR = info.get('max_replays', 24)
    # spread replays over conditions
    bycond = {}
    for cand in candidates:
        bycond.setdefault(cand['cond'], []).append(cand)
    picked = []
    PERC = info.get('max_replays_per_cond', 6)
    taken = {}
    while len(picked) < MAXR and any(bycond[c] and taken.get(c, 0) < PERC for c in bycond):
        for c in list(bycond):
            if bycond[c] and taken.get(c, 0) < PERC and len(picked) < MAXR:
                # prefer candidates with distinct labels
                picked.append(bycond[c].pop(0))
                taken[c] = taken.get(c, 0) + 1
    if picked:
        rres = run_parallel(_replay_child, [(H, c['witness']) for c in picked], min(nproc, 8), 900)
        for cand, (st, r) in zip(picked, rres):
            if st != 'ok':
                harness_errors.append(f'replay failed: {st} {str(r)[:500]}')
                continue
            if r.get('reproduced'):
                sig = r.get('signature', cand['cond'])
                reproduced.setdefault(sig, dict(witness=cand['witness'], what=r.get('what', ''), detail=r.get('detail'), cond=cand['cond'], n=0))
                reproduced[sig]['n'] += 1
            else:
                spurious += 1
                inconclusive.append(f'{cand["cond"]}: solver candidate did not reproduce on the real build (SPURIOUS, excluded): {json.dumps(cand["witness"], default=str)[:200]} -> {str(r.get("what") or r.get("error") or "")[:200]}')

    violations = 0
    os.makedirs(os.path.join(VERIF, 'replays'), exist_ok=True)
    lines = []
    for k in known:
        if k.get('status') == 'open':
            seen = 'reproduced in this run' if k['signature'] in reproduced else 'not re-derived in this run'
            lines.append(f"KNOWN-FINDING: property={pid} {k['what']} [{k['signature']}; {seen}]")
    for sig, v in reproduced.items():
        if sig in open_sigs:
            continue
        violations += 1
        h = hashlib.sha1(sig.encode()).hexdigest()[:8]
        path = os.path.join(VERIF, 'replays', f'{pid}-{h}.json')
        json.dump({'property': pid, 'signature': sig, 'what': v['what'], 'cond': v['cond'], 'witness': v['witness'], 'detail': v['detail'],
                   'replay_cmd': f'./vcheck {pid} --replay {path}'}, open(path, 'w'), indent=1, default=str)
        lines.append(f'VIOLATION property={pid} replay={path}')
        lines.append(f'  what: {v["what"]}')
    agg = {}
    for s in inconclusive:
        agg[s] = agg.get(s, 0) + 1
    for s, k in list(agg.items())[:40]:
        lines.append(f'INCONCLUSIVE property={pid} reason={s}' + (f' (x{k})' if k > 1 else ''))
    for s in harness_errors[:20]:
        lines.append(f'HARNESS-ERROR property={pid} {s}')
    wall = round(time.time() - t0, 2)
    exhaustive = cert_ok and not inconclusive and not harness_errors
    ev = {
        'property_id': pid, 'tier': tier, 'seed': seed, 'level': 'model_checking',
        'coverage': {
            'states': tot['paths'], 'transitions': tot['decisions'],
            'traces_validated_against_impl': tot['validated'] + len(picked),
            'samples': samples[:12] or [{'note': 'no path finished'}],
            'obligations': tot['obligations'], 'discharged': tot['discharged'],
            'exhaustive': bool(exhaustive),
            'explanation': info.get('explanation', ''),
            'engine': info.get('engine', 'symx'),
            'functions_encoded': fns,
            'bounds': info.get('bounds', {}).get(tier, info.get('bounds')),
            'outside_the_claim': info.get('outside', []),
            'queries': tot['queries'], 'solver_s': round(tot['solver_s'], 2),
            'conditions': conds,
            'coverage_certificate': 'ok' if cert_ok else 'incomplete',
            'vacuity_twins': vac,
            'inconclusive': inconclusive[:60],
            'candidates_from_solver': len(candidates), 'replayed': len(picked), 'spurious': spurious,
            'reproduced_signatures': sorted(reproduced),
            'known_findings_listed': [k['signature'] for k in known],
            'repo': loader.REPO,
        },
        'assumptions': info.get('assumptions', []),
        'wall_s': wall,
        'violations': violations,
    }
    if write_evidence and loader.REPO == '/repo':
        os.makedirs(os.path.join(VERIF, 'evidence'), exist_ok=True)
        json.dump(ev, open(os.path.join(VERIF, 'evidence', f'{pid}.json'), 'w'), indent=1, default=str)
    print(f'[{pid}] tier={tier} jobs={len(jobs)} paths={tot["paths"]} decisions={tot["decisions"]} queries={tot["queries"]} '
          f'obligations={tot["discharged"]}/{tot["obligations"]} solver_s={tot["solver_s"]:.1f} validated={tot["validated"]} '
          f'candidates={len(candidates)} reproduced={len(reproduced)} wall_s={wall}')
    for c, cd in conds.items():
        print(f'  - {c}: jobs={cd["jobs"]} paths={cd["paths"]} obligations={cd["discharged"]}/{cd["obligations"]} cpu_s={cd["wall_s"]} complete={cd["complete"]}')
    for ln in lines:
        print(ln)
    # a violation reproduced on the real build is reported as such even if some other condition of the same run broke
    if violations:
        return 1
    return 3 if harness_errors else 0
