"""Merge-style numpy stand-in for symx (1-D arrays of exact values).

Contract: numpy's documented semantics on exact values. Shape-producing calls (nonzero, where with
one argument) fork per element; counting/selecting/storing with symbolic operands merges (If-terms).
np.empty returns Garbage cells = any bytes a previous allocation left. Every symbolic index records
the obligation 0 <= i < len in CTX.oob; reading a never-overwritten Garbage cell is recorded in
CTX.uninit.
"""
from __future__ import annotations

import builtins
import math
from fractions import Fraction as F

import z3

from . import symx
from .symx import SBool, SInt, SReal, ShimUnsupported, mkbool, real_log, zint

int32 = 'int32'
int16, uint16, int8, uint8 = 'int16', 'uint16', 'int8', 'uint8'
int64 = 'int64'
uint32 = 'uint32'
uint64 = 'uint64'
bool_ = 'bool'
inf = math.inf
nan = math.nan


def float32(x):
    return x


float64 = float32


class _Rand:
    """numpy.random inside the kernel: seed is a no-op; a draw is an ARBITRARY outcome (decided by the solver, forks)"""

    def seed(self, *a):
        pass

    def _pick(self, n):
        e = symx.CTX.fresh_int('draw')
        symx.CTX.solver.add(e >= 0, e < n)
        return SInt(e, 0, n - 1).concretize() if n > 1 else 0

    def choice(self, a, size=None, replace=True):
        vals = list(a.data) if isinstance(a, Arr) else list(range(int(a)))
        if size is None:
            return vals[self._pick(len(vals))]
        out, pool = [], list(range(len(vals)))
        for _ in range(int(size)):
            if not pool:
                raise ValueError("Cannot take a larger sample than population when 'replace=False'")
            k = pool[self._pick(len(pool))]
            if not replace:
                pool.remove(k)
            out.append(vals[k])
        return Arr(out, getattr(a, 'dtype', None))

    def randint(self, low, high=None, size=None):
        if high is None:
            low, high = 0, low
        return int(low) + self._pick(int(high) - int(low))

    def shuffle(self, a):
        rest = list(a.data)
        a.data = [rest.pop(self._pick(len(rest))) for _ in range(len(rest))]


random = _Rand()


def _union_dom(vals):
    out = set()
    for v in vals:
        if isinstance(v, SInt):
            if v.dom is None:
                return None
            out |= v.dom
        elif isinstance(v, int) and not isinstance(v, bool):
            out.add(v)
        else:
            return None
    return out


def _with_dom(r, vals):
    if isinstance(r, SInt):
        d = _union_dom(vals)
        if d is not None:
            r.dom = frozenset(d)
    return r


def _bounds(v):
    if isinstance(v, SInt):
        return v.lo, v.hi
    if isinstance(v, SBool):
        return 0, 1
    return int(v), int(v)


class Garbage(SInt):
    """content of an uninitialised cell: any value (all allocator histories)"""


class Arr:
    def __init__(self, data, dtype=None):
        self.data = list(data)
        self.dtype = dtype

    def __len__(self):
        return len(self.data)

    def __iter__(self):
        return iter(self.data)

    @property
    def size(self):
        return len(self.data)

    @property
    def shape(self):
        return (len(self.data),)

    def reshape(self, *a):
        return self

    def astype(self, t):
        if t in (int32, 'int') and builtins.any(isinstance(v, Garbage) for v in self.data):
            # float64 garbage -> int32: still arbitrary
            return Arr(self.data, t)
        if t in Arr._WRAP and not builtins.any(isinstance(v, Garbage) for v in self.data):
            return Arr([self._wrapv(v, t) for v in self.data], t)      # conversion to a fixed-width integer type wraps around
        return Arr(self.data, t)

    def copy(self):
        return Arr(self.data, self.dtype)

    def tolist(self):
        return list(self.data)

    def _sel(self, i):
        if isinstance(i, Garbage):
            symx.CTX.uninit.append(('index-from-uninitialised-cell',))
        if isinstance(i, SInt):
            n = len(self.data)
            symx.CTX.oob.append(z3.Or(i.e < 0, i.e >= n))
            vals = self.data
            if n == 0:
                raise ShimUnsupported('symbolic index into an empty array')
            if builtins.all(isinstance(v, (int, SInt)) and not isinstance(v, bool) for v in vals):
                e = zint(vals[-1])
                for k in range(n - 2, -1, -1):
                    e = z3.If(i.e == k, zint(vals[k]), e)
                lo = builtins.min(_bounds(v)[0] for v in vals)
                hi = builtins.max(_bounds(v)[1] for v in vals)
                return SInt.mk(e, lo, hi)
            return self.data[int(i)]
        if hasattr(i, '__index__'):
            return self.data[i.__index__()]
        return self.data[i]

    def __getitem__(self, i):
        if isinstance(i, tuple) and len(i) == 1:
            i = i[0]
        if isinstance(i, Arr):
            if i.dtype == 'bool':
                return Arr([v for v, c in zip(self.data, i.data) if c], self.dtype)
            return Arr([self._sel(j) for j in i.data], self.dtype)
        if isinstance(i, slice):
            return Arr(self.data[i], self.dtype)
        return self._sel(i)

    def __setitem__(self, i, v):
        if isinstance(i, Arr):
            # assignment through an index array happens element by element in order: for a repeated index the last value wins
            vs = list(v.data) if isinstance(v, Arr) else [v] * len(i.data)
            if len(vs) != len(i.data):
                raise ValueError('shape mismatch: value array cannot be broadcast to indexing result')
            for j, x in zip(i.data, vs):
                self[j] = x
            return
        if isinstance(i, slice):
            vs = list(v.data if isinstance(v, Arr) else v)
            start, stop, step = i.indices(len(self.data))
            if stop - start != len(vs):
                # numpy/numba would raise (or, without boundscheck, write out of range)
                symx.CTX.oob.append(z3.BoolVal(True))
                symx.CTX.notes.append(('slice-assign-size-mismatch', start, stop, len(vs)))
                vs = vs[: builtins.max(0, stop - start)]
                stop = start + len(vs)
            self.data[start:stop] = vs
        elif isinstance(i, SInt):
            n = len(self.data)
            symx.CTX.oob.append(z3.Or(i.e < 0, i.e >= n))
            for k in (sorted(x for x in i.dom if 0 <= x < n) if i.dom is not None else range(n)):
                c = mkbool(i.e == k)
                if c is True:
                    self.data[k] = v
                elif c is not False:
                    self.data[k] = symx.ite(c, v, self.data[k])
        else:
            self.data[i] = v

    _WRAP = {'uint32': (0, 2 ** 32), 'int32': (-2 ** 31, 2 ** 32), 'uint8': (0, 2 ** 8), 'int8': (-2 ** 7, 2 ** 8), 'int16': (-2 ** 15, 2 ** 16), 'uint16': (0, 2 ** 16)}

    def _wrapv(self, v, dtype):
        """fixed-width integer arrays wrap around on overflow (numpy semantics)"""
        w = Arr._WRAP.get(dtype)
        if w is None or isinstance(v, (SBool, bool, SReal, float)):
            return v
        lo, size = w
        if isinstance(v, int):
            return (v - lo) % size + lo
        if isinstance(v, SInt) and (v.lo < lo or v.hi >= lo + size):
            return SInt.mk((v.e - lo) % size + lo, lo, lo + size - 1)
        return v

    def _zip(self, o, f, dtype=None):
        dt = dtype or self.dtype
        if isinstance(o, Arr):
            if len(o.data) != len(self.data):
                raise ValueError('operands could not be broadcast together')
            return Arr([self._wrapv(f(a, b), dt) for a, b in zip(self.data, o.data)], dt)
        return Arr([self._wrapv(f(a, o), dt) for a in self.data], dt)

    def __mod__(self, o):
        return self._zip(o, lambda a, b: a % b)

    def __floordiv__(self, o):
        return self._zip(o, lambda a, b: a // b)

    def min(self, *a, **k):
        return min(self)

    def max(self, *a, **k):
        return max(self)

    def sum(self, *a, **k):
        return sum(self)

    def argsort(self, *a, **k):
        return argsort(self)

    def __eq__(self, o):
        return self._zip(o, lambda a, b: a == b, 'bool')

    def __ne__(self, o):
        return self._zip(o, lambda a, b: a != b, 'bool')

    def __lt__(self, o):
        return self._zip(o, lambda a, b: a < b, 'bool')

    def __gt__(self, o):
        return self._zip(o, lambda a, b: a > b, 'bool')

    def __le__(self, o):
        return self._zip(o, lambda a, b: a <= b, 'bool')

    def __ge__(self, o):
        return self._zip(o, lambda a, b: a >= b, 'bool')

    def __sub__(self, o):
        return self._zip(o, lambda a, b: a - b)

    def __rsub__(self, o):
        return self._zip(o, lambda a, b: b - a)

    def __truediv__(self, o):
        return self._zip(o, lambda a, b: symx.exact_div(a, b))

    def __rtruediv__(self, o):
        return self._zip(o, lambda a, b: symx.exact_div(b, a))

    def __neg__(self):
        return Arr([-a for a in self.data], self.dtype)

    def __and__(self, o):
        return self._zip(o, lambda a, b: a & b, 'bool')

    def __or__(self, o):
        return self._zip(o, lambda a, b: a | b, 'bool')

    def __add__(self, o):
        return self._zip(o, lambda a, b: a + b)

    def __mul__(self, o):
        return self._zip(o, lambda a, b: a * b)

    __radd__ = __add__
    __rmul__ = __mul__

    __hash__ = None


ndarray = Arr


def array(x, dtype=None):
    return Arr(list(x), dtype)


asarray = array


class SparseZeros(Arr):
    """np.zeros(n) for large n: an ordered write log (index term, value); a read is an If-chain over the log, every cell never
    written is the concrete 0. Indices may be concrete, symbolic with a finite domain, or arbitrary symbolic integers."""

    def __init__(self, n, dtype=None):
        self.n = n
        self.log = []       # (z3 index term, value, candidate keys or None)
        self.dtype = dtype

    def __len__(self):
        return self.n

    @property
    def size(self):
        return self.n

    @property
    def shape(self):
        return (self.n,)

    @property
    def data(self):
        raise ShimUnsupported('dense view of a large sparse array')

    def _read(self, ie):
        e = z3.IntVal(0)
        lo = hi = 0
        for idx, val, _ in self.log:
            e = z3.If(idx == ie, zint(val), e)
            l, h = _bounds(val)
            lo, hi = builtins.min(lo, l), builtins.max(hi, h)
        return SInt.mk(e, lo, hi)

    def _idx(self, i):
        if isinstance(i, SInt):
            symx.CTX.oob.append(z3.Or(i.e < 0, i.e >= self.n))
            return i.e, (set(k for k in i.dom if 0 <= k < self.n) if i.dom is not None else None)
        i = i.__index__()
        if not -self.n <= i < self.n:
            raise IndexError('index out of bounds')
        return z3.IntVal(i % self.n), {i % self.n}

    def __getitem__(self, i):
        if isinstance(i, tuple) and len(i) == 1:
            i = i[0]
        if isinstance(i, Arr):
            return Arr([self[j] for j in i.data], self.dtype)
        return self._read(self._idx(i)[0])

    def __setitem__(self, i, v):
        ie, keys = self._idx(i)
        self.log.append((ie, v, keys))

    def touched(self):
        keys = set()
        for _, _, ks in self.log:
            if ks is None:
                raise ShimUnsupported('enumerating the cells of a large array written at an unconstrained symbolic index')
            keys |= ks
        return [(k, self._read(z3.IntVal(k))) for k in sorted(keys)]

    def max_value(self):
        e = z3.IntVal(0)
        hi = 0
        for idx, _, _ in self.log:
            v = self._read(idx)
            ve = zint(v)
            e = z3.If(ve > e, ve, e)
            hi = builtins.max(hi, _bounds(v)[1])
        return SInt.mk(e, 0, hi)


def zeros(n, dtype=None):
    if isinstance(n, tuple):
        raise ShimUnsupported('2-D zeros')
    n = int(n)
    if n > 4096:
        return SparseZeros(n, dtype)
    return Arr([0] * n, dtype)


def empty(n, dtype=None):
    return Arr([Garbage(symx.CTX.fresh_int('garbage'), -2 ** 31, 2 ** 31 - 1) for _ in range(int(n))], dtype)


def max(a):
    if isinstance(a, SparseZeros):
        return a.max_value()
    if not isinstance(a, Arr):
        a = Arr(list(a))
    vals = a.data
    if not vals:
        raise ValueError('zero-size array to reduction operation maximum which has no identity')
    if builtins.all(isinstance(v, (int, float)) and not isinstance(v, bool) for v in vals):
        return builtins.max(vals)
    e = zint(vals[0])
    for v in vals[1:]:
        ve = zint(v)
        e = z3.If(ve > e, ve, e)
    return _with_dom(SInt.mk(e, builtins.max(_bounds(v)[0] for v in vals), builtins.max(_bounds(v)[1] for v in vals)), vals)


def min(a):
    vals = a.data
    if not vals:
        raise ValueError('zero-size array to reduction operation minimum which has no identity')
    if builtins.all(isinstance(v, (int, float)) and not isinstance(v, bool) for v in vals):
        return builtins.min(vals)
    e = zint(vals[0])
    for v in vals[1:]:
        ve = zint(v)
        e = z3.If(ve < e, ve, e)
    return _with_dom(SInt.mk(e, builtins.min(_bounds(v)[0] for v in vals), builtins.min(_bounds(v)[1] for v in vals)), vals)


def _truth(x):
    return bool(x)


def argsort(a, kind=None, **kw):
    """argsort; comparisons on symbolic values fork. Only kind='stable'/'mergesort' keeps ties in their original order: numpy's
    default quicksort gives NO guarantee for ties, so their relative order is an arbitrary (solver-chosen) permutation."""
    idx = list(range(len(a.data)))
    for i in range(1, len(idx)):
        j = i
        while j > 0 and (a.data[idx[j]] < a.data[idx[j - 1]]):
            idx[j], idx[j - 1] = idx[j - 1], idx[j]
            j -= 1
    if kind not in ('stable', 'mergesort') and UNSTABLE_TIES:
        out, i = [], 0
        while i < len(idx):
            j = i + 1
            while j < len(idx) and _truth(a.data[idx[j]] == a.data[idx[i]]):
                j += 1
            group = idx[i:j]
            if 1 < len(group) <= 5:
                rest = list(group)
                group = [rest.pop(random._pick(len(rest))) for _ in range(len(rest))]
            out += group
            i = j
        idx = out
    return Arr(idx, 'int')


UNSTABLE_TIES = False      # set by harnesses that want the unspecified tie order of an unstable sort explored


def searchsorted(a, v, side='left'):
    """positions where the values v would be inserted into the sorted array a (comparisons fork)"""
    vs = v.data if isinstance(v, Arr) else [v]
    out = []
    for x in vs:
        k = 0
        for y in a.data:
            if (y < x) if side == 'left' else (y <= x):
                k += 1
        out.append(k)
    return Arr(out, 'int') if isinstance(v, Arr) else out[0]


def allclose(a, b, rtol=1e-05, atol=1e-08):
    """numpy.allclose on exact integers: |a - b| <= atol + rtol * |b| element-wise"""
    A = a.data if isinstance(a, Arr) else [a]
    B = b.data if isinstance(b, Arr) else [b] * len(A)
    if len(A) != len(B):
        raise ValueError('operands could not be broadcast together')
    from fractions import Fraction
    sc = 10 ** 8
    r, t = int(Fraction(str(rtol)) * sc), int(Fraction(str(atol)) * sc)
    res = True
    for x, y in zip(A, B):
        d, ay = builtins.abs(x - y), builtins.abs(y)
        c = (d * sc <= t + r * ay)
        if c is False:
            return False
        if c is not True:
            res = mkbool(z3.And(symx.zbool(res), symx.zbool(c)))
    return res


def sort(a, **kw):
    return a[argsort(a)]


def append(a, b, axis=None):
    xs = list(a.data) if isinstance(a, Arr) else list(a)
    ys = list(b.data) if isinstance(b, Arr) else (list(b) if isinstance(b, (list, tuple)) else [b])
    return Arr(xs + ys, getattr(a, 'dtype', None))


def concatenate(arrs, axis=0):
    out = []
    for a in arrs:
        out += list(a.data) if isinstance(a, Arr) else list(a)
    return Arr(out, getattr(arrs[0], 'dtype', None))


def copy(a):
    return a.copy()


def cumsum(a):
    out, t = [], 0
    for v in a.data:
        t = t + v
        out.append(t)
    return Arr(out, a.dtype)


def diff(a):
    return Arr([a.data[i + 1] - a.data[i] for i in range(len(a.data) - 1)], a.dtype)


def ones(n, dtype=None):
    return Arr([1] * int(n), dtype)


def zeros_like(a, dtype=None):
    return Arr([0] * len(a), dtype or a.dtype)


def fromiter(it, dtype=None, count=-1):
    return Arr(list(it), dtype)


def partition(a, kth, **kw):
    # any arrangement with the kth element in sorted position is allowed by numpy; the fully sorted one is such an arrangement
    return sort(a)


def nonzero(a):
    if isinstance(a, SparseZeros):
        return (Arr([i for i, v in a.touched() if (v != 0)], 'int'),)
    return (Arr([i for i, v in enumerate(a.data) if ((v != 0) if not isinstance(v, int) else v != 0)], 'int'),)


def where(c):
    return (Arr([i for i, v in enumerate(c.data) if v], 'int'),)


def count_nonzero(c):
    terms = []
    for v in c.data:
        if isinstance(v, SBool):
            terms.append(z3.If(v.e, 1, 0))
        elif isinstance(v, SInt):
            terms.append(z3.If(v.e != 0, 1, 0))
        else:
            terms.append(z3.IntVal(1 if v else 0))
    if not terms:
        return 0
    return SInt.mk(z3.Sum(terms), 0, len(terms))


def sum(a):
    if not a.data:
        return 0
    lo = builtins.sum(_bounds(v)[0] for v in a.data)
    hi = builtins.sum(_bounds(v)[1] for v in a.data)
    return SInt.mk(z3.Sum([zint(v) for v in a.data]), lo, hi)


def all(a):
    r = True
    for v in a.data:
        if v is True:
            continue
        if v is False:
            return False
        r = mkbool(z3.And(symx.zbool(r), symx.zbool(v)))
    return r


def any(a):
    r = False
    for v in a.data:
        if v is False:
            continue
        if v is True:
            return True
        r = mkbool(z3.Or(symx.zbool(r), symx.zbool(v)))
    return r


def array_equal(a, b):
    if len(a) != len(b):
        return False
    return all(a == b)


def log(x):
    return real_log(x)


def abs(x):
    return builtins.abs(x)


def bincount(a, minlength=0):
    m = int(max(a)) if len(a.data) else -1          # the length of the result depends on the largest value: concretised (forks)
    n = builtins.max(m + 1, int(minlength))
    return Arr([count_nonzero(a == k) for k in range(n)], 'int64')


def unique(a, return_index=False, return_inverse=False, return_counts=False, **kw):
    """sorted distinct values; the order/equality pattern of symbolic values is decided by forks"""
    if return_index:
        raise ShimUnsupported('np.unique(return_index)')
    if not isinstance(a, Arr):
        a = Arr(list(a))
    order = argsort(a).data
    groups = []
    for i in order:
        if groups and (a.data[groups[-1][0]] == a.data[i]):
            groups[-1].append(i)
        else:
            groups.append([i])
    vals = Arr([a.data[g[0]] for g in groups], a.dtype)
    res = [vals]
    if return_inverse:
        inv = [0] * len(a.data)
        for k, g in enumerate(groups):
            for i in g:
                inv[i] = k
        res.append(Arr(inv, 'int64'))
    if return_counts:
        res.append(Arr([len(g) for g in groups], 'int64'))
    return res[0] if len(res) == 1 else tuple(res)


def arange(*a):
    return Arr(list(range(*[int(x) for x in a])), 'int')


import types as _types
typing = _types.ModuleType('numpy.typing')
typing.NDArray = dict()
typing.ArrayLike = object


def __getattr__(name):
    if name.startswith('__'):
        raise AttributeError(name)
    raise ShimUnsupported(f'numpy.{name} is not modelled by the stand-in')
