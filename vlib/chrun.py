"""run one CrossHair condition in a subprocess and turn its verdict into the job-result format of the runner"""
from __future__ import annotations

import ast
import json
import os
import re
import subprocess
import sys
import tempfile
import time

VERIF = os.path.dirname(os.path.dirname(os.path.abspath(__file__)))


def parse_call(msg, fname):
    """'false when calling f('1', '', b1 = 'x') (which returns False)' -> positional/keyword python values"""
    key = 'when calling ' + fname + '('
    i = msg.find(key)
    if i < 0:
        return None
    j = i + len(key)
    depth, k, quote = 1, j, None
    while k < len(msg) and depth:
        ch = msg[k]
        if quote:
            if ch == '\\':
                k += 1
            elif ch == quote:
                quote = None
        elif ch in '\'"':
            quote = ch
        elif ch in '([{':
            depth += 1
        elif ch in ')]}':
            depth -= 1
        k += 1
    inner = msg[j:k - 1]
    try:
        call = ast.parse('f(' + inner + ')', mode='eval').body
        args = [ast.literal_eval(a) for a in call.args]
        kw = {kk.arg: ast.literal_eval(kk.value) for kk in call.keywords}
        return {'args': args, 'kwargs': kw}
    except Exception:
        return None


def run_condition(module, fname, timeout_s, repo, extra_env=None):
    """returns dict(verdict, message, witness, queries, solver_s, paths, wall_s)"""
    stats = tempfile.mktemp(prefix='chstats-', dir='/var/tmp')
    env = dict(os.environ, PYTHONPATH=VERIF + os.pathsep + repo, CH_STATS=stats, VERIF_REPO=repo, PYTHONHASHSEED='0')
    env.update(extra_env or {})
    cmd = [sys.executable, '-m', 'crosshair', 'check', '--report_all', '--unblock', 'open', '--per_condition_timeout', str(timeout_s), '--per_path_timeout', str(max(5, timeout_s // 4)),
           f'{module}.{fname}']
    t0 = time.time()
    try:
        p = subprocess.run(cmd, capture_output=True, text=True, env=env, cwd=VERIF, timeout=timeout_s * 2 + 120)
        out = p.stdout + p.stderr
    except subprocess.TimeoutExpired as e:
        out = 'TIMEOUT ' + str(e)
    st = {}
    try:
        st = json.load(open(stats))
        os.unlink(stats)
    except Exception:
        pass
    res = {'queries': st.get('queries', 0), 'solver_s': round(time.time() - t0, 2),   # solver time is not separable from CrossHair's run: wall time of the run (upper bound)
           'paths': st.get('paths', 0), 'wall_s': round(time.time() - t0, 1), 'raw': out[-1500:]}
    lines = [l for l in out.splitlines() if fname in l or ': error:' in l or ': info:' in l]
    verdict, msg, wit = 'inconclusive', out.strip()[-300:], None
    for l in out.splitlines():
        if 'Confirmed over all paths' in l:
            verdict, msg = 'confirmed', l
        elif ': error:' in l:
            verdict, msg = 'counterexample', l
            wit = parse_call(l, fname)
            break
        elif 'Not confirmed' in l or 'Unable to meet precondition' in l or 'Unknown' in l:
            if verdict != 'confirmed':
                verdict, msg = 'inconclusive', l
    res.update({'verdict': verdict, 'message': msg[-400:], 'witness': wit})
    return res


def job_result(job, r, fname):
    """runner job-result from a CrossHair run of one condition"""
    twin = bool(job.get('twin'))
    out = {'paths': max(1, r['paths']), 'decisions': r['queries'], 'queries': r['queries'], 'solver_s': r['solver_s'], 'obligations': 1, 'discharged': 0,
           'candidates': [], 'inconclusive': [], 'validated': 0, 'samples': [{'condition': fname, 'crosshair_verdict': r['verdict'], 'function_executions': r['paths'], 'wall_s': r['wall_s']}]}
    if r['verdict'] == 'confirmed':
        out['discharged'] = 1
        out['cert'] = {'ok': True, 'kind': 'CrossHair: Confirmed over all paths'}
    elif r['verdict'] == 'counterexample':
        if r['witness'] is None:
            out['inconclusive'].append(f'{fname}: counterexample could not be parsed: {r["message"]}')
            out['cert'] = {'ok': False, 'kind': 'unparsed counterexample'}
        else:
            out['candidates'].append({'witness': {'cond': job['cond'], 'fn': fname.replace('_twin', ''), 'call': r['witness'], 'label': r['message'][-200:]}})
            out['cert'] = {'ok': True, 'kind': 'CrossHair counterexample (exploration stops at the first one)'}
    else:
        out['inconclusive'].append(f'{fname}: {r["message"][-200:]}')
        out['cert'] = {'ok': twin, 'kind': 'CrossHair gave no verdict'}
    return out
