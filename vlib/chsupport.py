"""imported by the CrossHair harness modules: tool-defect patch, solver-query counter, path counter"""
from __future__ import annotations

import atexit
import json
import os
import time

import z3
from crosshair import simplestructs as ss
from crosshair.tracers import NoTracing

# --- crosshair-tool 0.0.110: SequenceConcatenation.__eq__ treats an empty list and an empty symbolic view as unequal -------------

def _seq_eq(a, b):
    if a.__len__() != b.__len__():
        return False
    for i in range(a.__len__()):
        if a[i] != b[i]:
            return False
    return True


def _concat_eq(self, other):
    with NoTracing():
        if not hasattr(other, '__len__'):
            return False
    return _seq_eq(self, other)


ss.SequenceConcatenation.__eq__ = _concat_eq

# --- statistics -------------------------------------------------------------------------------------------------------------
STATS = {'queries': 0, 'solver_s': 0.0, 'paths': 0}
_orig_check = z3.Solver.check


def _check(self, *a):
    # (no timing here: CrossHair intercepts the clock; solver time is bounded by the wall time of the run)
    STATS['queries'] += 1
    return _orig_check(self, *a)


z3.Solver.check = _check


def tick():
    with NoTracing():
        STATS['paths'] += 1
        if STATS['paths'] % 20 == 1:
            _dump()


def _dump():
    p = os.environ.get('CH_STATS')
    if p:
        try:
            json.dump(STATS, open(p, 'w'))
        except Exception:
            pass


atexit.register(_dump)


class PySet:
    """list-backed stand-in for builtin set inside modules loaded for CrossHair (insertion order; same observable behaviour up
    to iteration order, which the checked rules do not depend on)"""

    def __init__(self, it=()):
        self._d = []
        for x in it:
            self.add(x)

    def add(self, x):
        if x not in self._d:
            self._d.append(x)

    def remove(self, x):
        self._d.remove(x)

    def discard(self, x):
        if x in self._d:
            self._d.remove(x)

    def __contains__(self, x):
        return x in self._d

    def __iter__(self):
        return iter(list(self._d))

    def __len__(self):
        return len(self._d)

    def union(self, *others):
        r = PySet(self._d)
        for o in others:
            for x in o:
                r.add(x)
        return r

    def difference(self, *others):
        return PySet([x for x in self._d if not any(x in o for o in others)])

    def intersection(self, o):
        return PySet([x for x in self._d if x in o])

    __sub__ = difference
    __or__ = union
    __and__ = intersection

    def __eq__(self, o):
        return len(self) == len(o) and all(x in o for x in self._d)

    __hash__ = None


class PB:
    def set_description(self, *a, **k):
        pass

    def update(self, *a):
        pass
