"""helpers shared by symx harnesses"""
from __future__ import annotations

import itertools
import time

import z3

from . import symx
from .symx import HarnessError, audit_tree, certificate_monolithic, explore


class Out:
    """per-job accumulator"""

    def __init__(self, job):
        self.job = job
        self.twin = bool(job.get('twin'))
        self.obligations = 0
        self.discharged = 0
        self.candidates = []
        self.inconclusive = []
        self.validated = 0
        self.samples = []
        self.error = None

    def never(self, ctx, bad, witness_fn, label=''):
        """obligation: `bad` (z3 Bool or Python bool) is unsatisfiable under the current path condition"""
        self.obligations += 1
        if self.twin:
            bad = z3.BoolVal(True)
        if isinstance(bad, bool):
            if not bad:
                self.discharged += 1
                return True
            bad = z3.BoolVal(True)
        r = ctx.check(bad)
        if r == 'unsat':
            self.discharged += 1
            return True
        if r == 'sat':
            if len(self.candidates) < 40:
                m = ctx.model()
                w = witness_fn(m)
                w['label'] = label
                self.candidates.append({'witness': w})
            return False
        self.inconclusive.append(f'{label}: solver answered unknown')
        return False

    def concrete_fail(self, witness, label=''):
        """a path whose (now fully concrete) outcome contradicts the oracle"""
        self.obligations += 1
        w = dict(witness)
        w['label'] = label
        if len(self.candidates) < 40:
            self.candidates.append({'witness': w})

    def concrete_ok(self):
        self.obligations += 1
        self.discharged += 1

    def sample(self, s):
        if len(self.samples) < 3:
            self.samples.append(s)


def run_symx(job, setup, body, monolithic_upto=150, root_len=0):
    """explore body under setup; body(ctx, out) is called once per path"""
    out = Out(job)
    deadline = time.time() + job.get('deadline_s', 600) * 0.9
    keep_pc = True

    def _body(ctx):
        if out.twin and out.candidates:
            return None
        return body(ctx, out)

    max_paths = 1 if False else None
    try:
        paths, ctx, complete = explore(_body, setup, deadline=deadline, keep_pc=keep_pc, max_paths=(3 if out.twin else None))
    except HarnessError as e:
        return {'error': f'HarnessError: {e}', 'paths': 0}
    res = {
        'paths': len(paths), 'decisions': sum(len(p.trace) for p in paths), 'queries': ctx.nq, 'solver_s': round(ctx.tq, 3),
        'obligations': out.obligations, 'discharged': out.discharged, 'candidates': out.candidates,
        'inconclusive': list(out.inconclusive), 'validated': out.validated, 'samples': out.samples, 'error': out.error,
    }
    for p in paths:
        if p.status == 'unsupported':
            res['inconclusive'].append(f'stand-in does not model: {p.result}')
        elif p.status == 'unknown':
            res['inconclusive'].append(f'path abandoned: {p.result}')
    if out.twin:
        res['cert'] = {'ok': True, 'kind': 'twin'}
        return res
    if not complete:
        res['cert'] = {'ok': False, 'kind': 'budget exhausted', 'paths': len(paths)}
        return res
    ok, st = audit_tree(paths, root_len)
    cert = {'ok': ok, 'kind': 'decision-tree audit', **st}
    if ok and len(paths) <= monolithic_upto:
        r = certificate_monolithic(ctx, paths)
        cert['monolithic'] = r
        cert['kind'] = 'decision-tree audit + unsat(domain and not OR(path conditions))'
        if r != 'unsat':
            cert['ok'] = False
    res['cert'] = cert
    return res


def product_pins(names_ranges):
    """all assignments of a few pinned variables: a partition of the domain that is complete by construction"""
    names = [n for n, _ in names_ranges]
    for vals in itertools.product(*[list(r) for _, r in names_ranges]):
        yield dict(zip(names, vals))
