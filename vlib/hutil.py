"""helpers shared by symx harnesses"""
from __future__ import annotations

import itertools
import time

import z3

from . import symx
from .symx import HarnessError, audit_tree, certificate_monolithic, explore


class Out:
    """per-job accumulator"""

    def __init__(self, job):
        self.job = job
        self.twin = bool(job.get('twin'))
        self.obligations = 0
        self.discharged = 0
        self.candidates = []
        self.inconclusive = []
        self.validated = 0
        self.samples = []
        self.error = None

    def never(self, ctx, bad, witness_fn, label=''):
        """obligation: `bad` (z3 Bool or Python bool) is unsatisfiable under the current path condition"""
        self.obligations += 1
        if self.twin:
            bad = z3.BoolVal(True)
        if isinstance(bad, bool):
            if not bad:
                self.discharged += 1
                return True
            bad = z3.BoolVal(True)
        r = ctx.check(bad)
        if r == 'unsat':
            self.discharged += 1
            return True
        if r == 'sat':
            if len(self.candidates) < 40:
                m = ctx.model()
                w = witness_fn(m)
                w['label'] = label
                self.candidates.append({'witness': w})
            return False
        self.inconclusive.append(f'{label}: solver answered unknown')
        return False

    def concrete_fail(self, witness, label=''):
        """a path whose (now fully concrete) outcome contradicts the oracle"""
        self.obligations += 1
        self.validated += 1        # the path ran the real code on concrete values: it is itself a trace of the implementation
        w = dict(witness)
        w['label'] = label
        if len(self.candidates) < 40:
            self.candidates.append({'witness': w})

    def concrete_ok(self):
        self.obligations += 1
        self.discharged += 1
        self.validated += 1

    def sample(self, s):
        if len(self.samples) < 3:
            self.samples.append(s)


STANDIN_ERRORS = (ValueError, IndexError, ZeroDivisionError, OverflowError, KeyError)


def _classify_exception(e):
    """an exception escaping the code under test: raised by the real source (a behaviour to report) or by a stand-in that
    does not model something (inconclusive)?"""
    import traceback
    tb = traceback.extract_tb(e.__traceback__)
    last = tb[-1]
    in_standin = '/verif/vlib/' in last.filename or '/verif/harness/' in last.filename
    if in_standin and not isinstance(e, STANDIN_ERRORS):
        return 'unsupported'
    if isinstance(e, (AttributeError, TypeError, NotImplementedError)) and any(k in str(e) for k in ('Arr', 'SInt', 'SReal', 'SBool', 'xnp', 'Garbage', 'vlib', "module 'numpy'", 'SparseDict', 'Mat')):
        return 'unsupported'
    return 'raised'


def run_symx(job, setup, body, monolithic_upto=150, root_len=0, wit=None):
    """explore body under setup; body(ctx, out) is called once per path. wit(model) -> witness dict is used when the code
    under test raises: the exception becomes a candidate violation (replayed on the real build like any other)."""
    out = Out(job)
    deadline = time.time() + job.get('deadline_s', 600) * 0.9
    keep_pc = True

    def _body(ctx):
        if out.twin and out.candidates:
            return None
        try:
            return body(ctx, out)
        except (symx.Infeasible, symx.Inconclusive, symx.ShimUnsupported, HarnessError):
            raise
        except Exception as e:  # noqa
            kind = _classify_exception(e)
            import traceback
            where = traceback.extract_tb(e.__traceback__)[-1]
            msg = f'{type(e).__name__}: {e} (at {where.filename.split("/")[-1]}:{where.lineno} in {where.name})'
            if kind == 'unsupported' or wit is None:
                raise symx.ShimUnsupported(msg)
            out.obligations += 1
            if ctx.check() == 'sat' and len(out.candidates) < 40:
                w = wit(ctx.model())
                w['label'] = 'raises ' + msg
                w['raises'] = type(e).__name__
                out.candidates.append({'witness': w})
            return None

    max_paths = 1 if False else None
    try:
        paths, ctx, complete = explore(_body, setup, deadline=deadline, keep_pc=keep_pc, max_paths=(3 if out.twin else None))
    except HarnessError as e:
        return {'error': f'HarnessError: {e}', 'paths': 0}
    res = {
        'paths': len(paths), 'decisions': sum(len(p.trace) for p in paths), 'queries': ctx.nq, 'solver_s': round(ctx.tq, 3),
        'obligations': out.obligations, 'discharged': out.discharged, 'candidates': out.candidates,
        'inconclusive': list(out.inconclusive), 'validated': out.validated, 'samples': out.samples, 'error': out.error,
    }
    for p in paths:
        if p.status == 'unsupported':
            res['inconclusive'].append(f'stand-in does not model: {p.result}')
        elif p.status == 'unknown':
            res['inconclusive'].append(f'path abandoned: {p.result}')
    if out.twin:
        res['cert'] = {'ok': True, 'kind': 'twin'}
        return res
    if not complete:
        res['cert'] = {'ok': False, 'kind': 'budget exhausted', 'paths': len(paths)}
        return res
    ok, st = audit_tree(paths, root_len)
    cert = {'ok': ok, 'kind': 'decision-tree audit', **st}
    if ok and len(paths) <= monolithic_upto and not ctx.any_fresh:   # path-local fresh variables are not part of the declared domain
        r = certificate_monolithic(ctx, paths)
        cert['monolithic'] = r
        if r == 'unsat':
            cert['kind'] = 'decision-tree audit + unsat(domain and not OR(path conditions))'
        elif r == 'sat':
            cert['ok'] = False          # a point of the declared domain lies on no explored path
        else:
            cert['kind'] = 'decision-tree audit (the additional monolithic query was not answered within its time limit)'
    res['cert'] = cert
    return res


def product_pins(names_ranges):
    """all assignments of a few pinned variables: a partition of the domain that is complete by construction"""
    names = [n for n, _ in names_ranges]
    for vals in itertools.product(*[list(r) for _, r in names_ranges]):
        yield dict(zip(names, vals))


def z_is_median(g, vals):
    """z3: g is the median of the real terms vals (mean of the middle two for an even count), by order statistics"""
    k = len(vals)

    def le(x):
        return z3.Sum([z3.If(v <= x, 1, 0) for v in vals])

    def ge(x):
        return z3.Sum([z3.If(v >= x, 1, 0) for v in vals])
    if k == 1:
        return g == vals[0]
    if k % 2:
        h = (k + 1) // 2
        return z3.Or([z3.And(g == v, le(v) >= h, ge(v) >= h) for v in vals])
    h = k // 2
    opts = []
    for i in range(k):
        for j in range(k):
            if i != j:
                a, b = vals[i], vals[j]
                opts.append(z3.And(g == (a + b) / 2, a <= b, le(a) >= h, ge(a) >= h + 1, le(b) >= h + 1, ge(b) >= h))
    return z3.Or(opts)
