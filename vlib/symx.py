"""symx: run real Python source under plain CPython on values that carry z3 terms.

A branch on a symbolic value asks the solver which outcomes are feasible under the current path
condition; every non-trivial decision (forked or forced) is recorded, so a prefix replays
deterministically and the recorded decision tree can be audited afterwards (coverage certificate).
Data is merged (If-terms), not forked, wherever the stand-ins can do so.
"""
from __future__ import annotations

import itertools
import time
from fractions import Fraction as F

import z3


class Infeasible(Exception):
    """neither outcome of a decision is satisfiable (cannot happen under a satisfiable prefix)"""


class Inconclusive(Exception):
    """solver answered unknown"""


class ShimUnsupported(Exception):
    """a stand-in was asked for something it does not model"""


class HarnessError(Exception):
    """the machinery itself is wrong (non-deterministic replay, stand-in disagreement, ...)"""


QUERY_TIMEOUT_MS = 60000


class Ctx:
    def __init__(self):
        self.solver = z3.Solver()
        self.solver.set('timeout', QUERY_TIMEOUT_MS)
        self.prefix = []
        self.trace = []      # (decision, forked, cond_hash)
        self.conds = []      # z3 literals asserted on this path (for the certificate)
        self.pos = 0
        self.nq = 0
        self.tq = 0.0
        self.fresh = 0
        self.oob = []
        self.uninit = []
        self.notes = []
        self.domain = []     # constraints added by setup (the bounded domain)
        self.any_fresh = False

    # -- solver access -------------------------------------------------------------------
    def assume(self, *cs):
        for c in cs:
            self.solver.add(c)
            self.domain.append(c)

    def check(self, *assumps):
        t = time.time()
        r = self.solver.check(*assumps)
        self.tq += time.time() - t
        self.nq += 1
        return str(r)

    def model(self):
        return self.solver.model()

    def begin(self, prefix):
        self.prefix = list(prefix)
        self.trace = []
        self.conds = []
        self.pos = 0
        self.oob = []
        self.uninit = []
        self.notes = []
        self.fresh = 0      # fresh names restart on every path so that a replayed prefix rebuilds identical terms

    def decide(self, cond):
        cond = z3.simplify(cond)
        if z3.is_true(cond):
            return True
        if z3.is_false(cond):
            return False
        h = cond.hash()
        if self.pos < len(self.prefix):
            ent = self.prefix[self.pos]
            d = ent[0]
            if len(ent) > 2 and ent[2] is not None and ent[2] != h:
                raise HarnessError(f'non-deterministic replay at decision {self.pos}')
            self.pos += 1
            lit = cond if d else z3.Not(cond)
            self.solver.add(lit)
            self.conds.append(lit)
            self.trace.append((d, ent[1], h))
            return d
        rt = self.check(cond)
        rf = self.check(z3.Not(cond))
        if 'unknown' in (rt, rf):
            raise Inconclusive(f'unknown at decision {self.pos}')
        can_t, can_f = rt == 'sat', rf == 'sat'
        self.pos += 1
        if not can_t and not can_f:
            raise Infeasible()
        d = can_t
        self.trace.append((d, can_t and can_f, h))
        lit = cond if d else z3.Not(cond)
        self.solver.add(lit)
        self.conds.append(lit)
        return d

    def fresh_real(self, name='r'):
        self.any_fresh = True
        self.fresh += 1
        return z3.Real(f'{name}!{self.fresh}')

    def fresh_int(self, name='i'):
        self.any_fresh = True
        self.fresh += 1
        return z3.Int(f'{name}!{self.fresh}')

    def eval_int(self, m, e):
        return m.eval(e, model_completion=True).as_long()


CTX: Ctx = None  # type: ignore


class PathRec:
    __slots__ = ('trace', 'status', 'result', 'pc')

    def __init__(self, trace, status, result, pc=None):
        self.trace = trace
        self.status = status
        self.result = result
        self.pc = pc


def explore(body, setup, root=(), max_paths=None, deadline=None, keep_pc=False):
    """DFS over the decision tree of body(ctx). Returns (paths, ctx, complete)."""
    global CTX
    ctx = Ctx()
    CTX = ctx
    setup(ctx)
    stack = [list(root)]
    paths = []
    complete = True
    while stack:
        if (max_paths is not None and len(paths) >= max_paths) or (deadline is not None and time.time() > deadline):
            complete = False
            break
        prefix = stack.pop()
        ctx.begin(prefix)
        ctx.solver.push()
        status, result = 'done', None
        try:
            result = body(ctx)
        except Infeasible:
            status = 'infeasible'
        except Inconclusive as e:
            status, result = 'unknown', str(e)
        except ShimUnsupported as e:
            status, result = 'unsupported', str(e)
        finally:
            pc = z3.And(ctx.conds) if (keep_pc and ctx.conds) else (z3.BoolVal(True) if keep_pc else None)
            ctx.solver.pop()
        paths.append(PathRec(list(ctx.trace), status, result, pc))
        taken = [(d, fk, h) for d, fk, h in ctx.trace]
        for i in range(len(prefix), len(ctx.trace)):
            d, alt, h = ctx.trace[i]
            if alt and status not in ('unknown',):
                stack.append(taken[:i] + [(not d, True, h)])
            elif alt:
                # the path died before finishing; its untaken siblings are still explored
                stack.append(taken[:i] + [(not d, True, h)])
    return paths, ctx, complete


def audit_tree(paths, root_len=0):
    """Coverage certificate by decision-tree audit: every forked decision node has both children
    explored; every forced node has one child (the other refuted by an unsat answer at that node);
    every leaf finished. Returns (ok, stats)."""
    trie = {}
    forced = 0
    for p in paths:
        node = trie
        for i, (d, fk, h) in enumerate(p.trace):
            ent = node.setdefault('k', {})
            if 'h' in node and node['h'] != h:
                return False, {'reason': f'two conditions at one tree node (depth {i})'}
            node['h'] = h
            node['f'] = node.get('f', False) or fk
            node = ent.setdefault(d, {})
        if 'leaf' in node or 'k' in node:
            return False, {'reason': 'a path is a prefix of another / duplicated'}
        node['leaf'] = p.status

    bad = []
    nodes = 0

    def walk(node, depth):
        nonlocal forced, nodes
        if 'leaf' in node:
            if node['leaf'] not in ('done',):
                bad.append(('leaf', depth, node['leaf']))
            return
        if 'k' not in node:
            bad.append(('dangling', depth))
            return
        nodes += 1
        kids = node['k']
        if node.get('f') and depth >= root_len:
            if set(kids) != {True, False}:
                bad.append(('missing-sibling', depth))
        elif len(kids) == 1:
            forced += 1
        for c in kids.values():
            walk(c, depth + 1)

    import sys
    sys.setrecursionlimit(max(10000, sys.getrecursionlimit()))
    walk(trie, 0)
    return (not bad), {'decision_nodes': nodes, 'forced_nodes': forced, 'problems': bad[:5]}


def certificate_monolithic(ctx, paths):
    """unsat(domain and not(or pc_i)) -- the explored path conditions cover the bounded domain."""
    pcs = [p.pc for p in paths if p.pc is not None and p.status == 'done']
    s = z3.Solver()
    s.set('timeout', QUERY_TIMEOUT_MS)
    for c in ctx.domain:
        s.add(c)
    s.add(z3.Not(z3.Or(pcs)) if pcs else z3.BoolVal(True))
    return str(s.check())


# ------------------------------------------------------------------------------------------------
# values
# ------------------------------------------------------------------------------------------------

def zint(x):
    if isinstance(x, SInt):
        return x.e
    if isinstance(x, SBool):
        return z3.If(x.e, 1, 0)
    if isinstance(x, bool):
        return z3.IntVal(int(x))
    if isinstance(x, int):
        return z3.IntVal(x)
    if hasattr(x, '__index__'):
        return z3.IntVal(int(x))
    raise TypeError(type(x))


class SBool:
    def __init__(self, e):
        self.e = e

    def __bool__(self):
        return CTX.decide(self.e)

    def __invert__(self):
        return mkbool(z3.Not(self.e))

    def __and__(self, o):
        return mkbool(z3.And(self.e, zbool(o)))

    __rand__ = __and__

    def __or__(self, o):
        return mkbool(z3.Or(self.e, zbool(o)))

    __ror__ = __or__

    def __eq__(self, o):
        return mkbool(self.e == zbool(o))

    def __ne__(self, o):
        return mkbool(self.e != zbool(o))

    __hash__ = None

    # arithmetic use of a boolean (True == 1)
    def __add__(self, o):
        return SInt.mk(zint(self), 0, 1) + o

    __radd__ = __add__

    def __int__(self):
        return int(bool(self))

    __index__ = __int__


def zbool(x):
    if isinstance(x, SBool):
        return x.e
    if isinstance(x, SInt):
        return x.e != 0
    return z3.BoolVal(bool(x))


def mkbool(e):
    e = z3.simplify(e)
    if z3.is_true(e):
        return True
    if z3.is_false(e):
        return False
    return SBool(e)


def sym_not(x):
    if isinstance(x, SBool):
        return mkbool(z3.Not(x.e))
    return not x


class SInt:
    dom = None   # optional finite set of possible values (sparse domains): lets array stand-ins touch only those cells

    def __init__(self, e, lo, hi, dom=None):
        self.e = e
        self.lo = lo
        self.hi = hi
        if dom is not None:
            self.dom = frozenset(dom)

    @staticmethod
    def mk(e, lo, hi):
        e = z3.simplify(e)
        if z3.is_int_value(e):
            return e.as_long()
        return SInt(e, lo, hi)

    def _b(self, o):
        if isinstance(o, SInt):
            return o.e, o.lo, o.hi
        if isinstance(o, SBool):
            return zint(o), 0, 1
        if isinstance(o, bool):
            o = int(o)
        if isinstance(o, int):
            return z3.IntVal(o), o, o
        if type(o).__module__ == 'numpy' and hasattr(o, '__index__'):
            o = int(o)
            return z3.IntVal(o), o, o
        return None

    def __add__(s, o):
        b = s._b(o)
        if b is None:
            if isinstance(o, (SReal, float, F)):
                return SReal.of(s) + o
            return NotImplemented
        r = SInt.mk(s.e + b[0], s.lo + b[1], s.hi + b[2])
        if s.dom is not None and b[1] == b[2] and isinstance(r, SInt):
            r.dom = frozenset(v + b[1] for v in s.dom)
        return r

    __radd__ = __add__

    def __sub__(s, o):
        b = s._b(o)
        if b is None:
            if isinstance(o, (SReal, float, F)):
                return SReal.of(s) - o
            return NotImplemented
        return SInt.mk(s.e - b[0], s.lo - b[2], s.hi - b[1])

    def __rsub__(s, o):
        b = s._b(o)
        if b is None:
            return SReal.of(o) - SReal.of(s)
        return SInt.mk(b[0] - s.e, b[1] - s.hi, b[2] - s.lo)

    def __neg__(s):
        return SInt.mk(-s.e, -s.hi, -s.lo)

    def __pos__(s):
        return s

    def __abs__(s):
        return SInt.mk(z3.If(s.e < 0, -s.e, s.e), 0 if s.lo <= 0 <= s.hi else min(abs(s.lo), abs(s.hi)), max(abs(s.lo), abs(s.hi)))

    def __mul__(s, o):
        b = s._b(o)
        if b is None:
            if isinstance(o, (SReal, float, F)):
                return SReal.of(s) * o
            return NotImplemented
        if isinstance(o, (SInt, SBool)) and not (b[1] == b[2]):
            # symbolic * symbolic: expand over the smaller domain to stay linear
            small, big = (s, o) if (s.hi - s.lo) <= (b[2] - b[1]) else (o, s)
            if isinstance(small, SBool):
                small = SInt(zint(small), 0, 1)
            if isinstance(big, SBool):
                big = SInt(zint(big), 0, 1)
            if small.hi - small.lo > 256:
                # nonlinear integer arithmetic: z3 may answer unknown (then the path is inconclusive, never a verdict)
                c = [s.lo * b[1], s.lo * b[2], s.hi * b[1], s.hi * b[2]]
                return SInt.mk(s.e * b[0], min(c), max(c))
            e = z3.IntVal(0)
            for v in range(small.lo, small.hi + 1):
                e = z3.If(small.e == v, v * big.e, e)
            c = [small.lo * big.lo, small.lo * big.hi, small.hi * big.lo, small.hi * big.hi]
            return SInt.mk(e, min(c), max(c))
        c = [s.lo * b[1], s.lo * b[2], s.hi * b[1], s.hi * b[2]]
        return SInt.mk(s.e * b[0], min(c), max(c))

    __rmul__ = __mul__

    def __mod__(s, o):
        b = s._b(o)
        if b is None or b[1] != b[2] or b[1] <= 0:
            raise ShimUnsupported('mod by a symbolic or non-positive value')
        if 0 <= s.lo and s.hi < b[1]:
            return s
        return SInt.mk(s.e % b[0], 0, b[1] - 1)

    def __rmod__(s, o):
        raise ShimUnsupported('mod by a symbolic value')

    def __floordiv__(s, o):
        b = s._b(o)
        if b is None or b[1] != b[2] or b[1] <= 0:
            raise ShimUnsupported('floordiv by a symbolic or non-positive value')
        return SInt.mk(s.e / b[0], s.lo // b[1], s.hi // b[1])

    def __truediv__(s, o):
        return SReal.of(s) / SReal.of(o)

    def __rtruediv__(s, o):
        return SReal.of(o) / SReal.of(s)

    def __and__(s, o):
        if isinstance(o, int) and o >= 0 and (o & (o + 1)) == 0 and s.lo < 0:
            return SInt.mk(s.e % (o + 1), 0, o)      # two's complement: x & (2^k - 1) == x mod 2^k for negative x as well
        if not (isinstance(o, int) and o >= 0) or s.lo < 0:
            raise ShimUnsupported('bit-and with a symbolic or negative operand')
        if (o & (o + 1)) == 0:
            return SInt.mk(s.e % (o + 1), 0, min(o, s.hi))
        if o.bit_length() > 40:
            raise ShimUnsupported('bit-and with a wide irregular mask')
        terms = [((s.e / (1 << b)) % 2) * (1 << b) for b in range(o.bit_length()) if (o >> b) & 1]
        return SInt.mk(z3.Sum(terms), 0, min(o, s.hi))

    __rand__ = __and__

    def __rshift__(s, k):
        if not isinstance(k, int) or s.lo < 0:
            raise ShimUnsupported('shift by a symbolic amount')
        return SInt.mk(s.e / (1 << k), s.lo >> k, s.hi >> k)

    def bit_length(s):
        if s.lo < 0:
            raise ShimUnsupported('bit_length of a negative')
        e = z3.IntVal(0)
        for b in range(1, s.hi.bit_length() + 1):
            e = z3.If(s.e >= (1 << (b - 1)), z3.IntVal(b), e)
        return SInt.mk(e, s.lo.bit_length(), s.hi.bit_length())

    def _c(s, o, f):
        b = s._b(o)
        if b is None:
            if isinstance(o, (SReal, float, F)):
                return f(SReal.of(s), SReal.of(o))
            return NotImplemented
        return mkbool(f(s.e, b[0]))

    def __eq__(s, o):
        r = s._c(o, lambda a, b: a == b)
        return False if r is NotImplemented else r

    def __ne__(s, o):
        r = s._c(o, lambda a, b: a != b)
        return True if r is NotImplemented else r

    def __lt__(s, o):
        return s._c(o, lambda a, b: a < b)

    def __le__(s, o):
        return s._c(o, lambda a, b: a <= b)

    def __gt__(s, o):
        return s._c(o, lambda a, b: a > b)

    def __ge__(s, o):
        return s._c(o, lambda a, b: a >= b)

    def concretize(s):
        """enumerate the value by solver decisions (forks)"""
        lo, hi = s.lo, s.hi
        if s.dom is not None:
            for v in sorted(s.dom):
                if CTX.decide(s.e == v):
                    return v
            raise HarnessError('SInt domain does not contain its value')
        if hi - lo > 4096:
            raise ShimUnsupported('concretising an integer with a huge range')
        for v in range(lo, hi):
            if CTX.decide(s.e == v):
                return v
        # last value: still a decision so that an out-of-range model is not silently accepted
        if CTX.decide(s.e == hi):
            return hi
        raise HarnessError('SInt bounds do not contain its value')

    def __index__(s):
        return s.concretize()

    __int__ = __index__

    def __hash__(s):
        return hash(s.concretize())

    def __bool__(s):
        return CTX.decide(s.e != 0)

    def __float__(s):
        return float(s.concretize())

    def __repr__(s):
        return f'SInt({s.e}, {s.lo}, {s.hi})'


class SStr:
    """a symbolic string (z3 String term) of bounded length: concatenation, equality, length"""

    def __init__(self, e, maxlen):
        self.e = e
        self.maxlen = maxlen

    @staticmethod
    def z(o):
        if isinstance(o, SStr):
            return o.e, o.maxlen
        if isinstance(o, str):
            return z3.StringVal(o), len(o)
        return None

    def __add__(s, o):
        b = SStr.z(o)
        if b is None:
            return NotImplemented
        return SStr(z3.Concat(s.e, b[0]), s.maxlen + b[1])

    def __radd__(s, o):
        b = SStr.z(o)
        if b is None:
            return NotImplemented
        return SStr(z3.Concat(b[0], s.e), s.maxlen + b[1])

    def __eq__(s, o):
        b = SStr.z(o)
        return False if b is None else mkbool(s.e == b[0])

    def __ne__(s, o):
        b = SStr.z(o)
        return True if b is None else mkbool(s.e != b[0])

    __hash__ = None

    def symlen(s):
        return SInt.mk(z3.Length(s.e), 0, s.maxlen)

    def encode(s, *a):
        return s

    def decode(s, *a):
        return s

    def __symstr__(s):
        return s

    def __bool__(s):
        return CTX.decide(z3.Length(s.e) > 0)

    def strip(s, chars=None):
        raise ShimUnsupported('strip() on a z3 string (Unicode whitespace is not modelled)')

    def __repr__(s):
        return f'SStr({s.e})'


def _sint_symstr(s):
    """str(n) for a small-range symbolic integer as an If-chain over string constants (no int-to-string theory needed)"""
    if s.hi - s.lo > 128:
        raise ShimUnsupported('str() of a symbolic integer with a wide range')
    e = z3.StringVal(str(s.hi))
    for v in range(s.hi - 1, s.lo - 1, -1):
        e = z3.If(s.e == v, z3.StringVal(str(v)), e)
    return SStr(e, max(len(str(s.lo)), len(str(s.hi))))


SInt.__symstr__ = _sint_symstr


def sint(name, lo, hi, ctx=None):
    """declare a bounded symbolic integer and add its domain constraint"""
    ctx = ctx or CTX
    e = z3.Int(name)
    ctx.assume(e >= lo, e <= hi)
    return SInt(e, lo, hi)


# ---- logarithms as linear forms over free constants ln p ----------------------------------------
LCONST = {}
LN_ENCLOSURE = {  # rational enclosures lo < ln p < hi
    2: (F(6931, 10000), F(6932, 10000)), 3: (F(10986, 10000), F(10987, 10000)),
    5: (F(16094, 10000), F(16095, 10000)), 7: (F(19459, 10000), F(19460, 10000)),
}


def factor(k):
    out = {}
    p = 2
    while k > 1:
        while k % p == 0:
            out[p] = out.get(p, 0) + 1
            k //= p
        p += 1
    return out


def LP(p):
    if p not in LCONST:
        LCONST[p] = z3.Real(f'LP{p}')
    return LCONST[p]


def ln_enclosures():
    cs = []
    for p, e in LCONST.items():
        if p in LN_ENCLOSURE:
            lo, hi = LN_ENCLOSURE[p]
            cs += [e > z3.RealVal(str(lo)), e < z3.RealVal(str(hi))]
        else:
            cs += [e > 0]
    return cs


def Lk(k):
    """ln k as a linear form over free constants ln p (p prime): multiplicativity by construction."""
    e = z3.RealVal(0)
    for p, m in factor(k).items():
        e = e + m * LP(p)
    return e


def Lq(q):
    q = F(q)
    return Lk(q.numerator) - Lk(q.denominator)


class LinForm:
    __slots__ = ('c', 't')

    def __init__(self, c=F(0), terms=None):
        self.c = F(c)
        self.t = dict(terms or {})

    def scale(self, q):
        return LinForm(self.c * q, {k: v * q for k, v in self.t.items()})

    def add(self, o):
        t = dict(self.t)
        for k, v in o.t.items():
            t[k] = t.get(k, 0) + v
        return LinForm(self.c + o.c, t)

    def is_const(self):
        return all(v == 0 for v in self.t.values())

    def z(self):
        e = z3.RealVal(str(self.c))
        for k, v in self.t.items():
            if v != 0:
                e = e + z3.RealVal(str(v)) * LP(k)
        return e

    def approx(self):
        import math
        return float(self.c) + sum(float(v) * math.log(k) for k, v in self.t.items())


class Table:
    """a real that is a function of a few small-domain ints: (atoms, assignment -> LinForm|None)"""

    def __init__(self, atoms, fn):
        self.atoms = atoms
        self.fn = fn
        self._memo = {}

    def get(self, vals):
        if vals not in self._memo:
            self._memo[vals] = self.fn(vals)
        return self._memo[vals]

    def domain(self):
        return itertools.product(*[range(lo, hi + 1) for _, lo, hi in self.atoms])

    def size(self):
        n = 1
        for _, lo, hi in self.atoms:
            n *= (hi - lo + 1)
        return n

    def lower(self):
        if self.size() > 20000:
            raise ShimUnsupported('table too large to lower')
        e = None
        for vals in self.domain():
            v = self.get(vals)
            ve = CTX.fresh_real('poison') if v is None else v.z()
            if e is None:
                e = ve
            else:
                e = z3.If(z3.And([a[0] == x for a, x in zip(self.atoms, vals)]), ve, e)
        return e


def tab_binop(a, b, f):
    atoms = list(a.atoms)
    ib = []
    for at in b.atoms:
        for i, x in enumerate(atoms):
            if x[0].eq(at[0]):
                ib.append(i)
                break
        else:
            atoms.append(at)
            ib.append(len(atoms) - 1)
    na = len(a.atoms)

    def fn(vals):
        x = a.get(tuple(vals[:na]))
        y = b.get(tuple(vals[i] for i in ib))
        if x is None or y is None:
            return None
        return f(x, y)
    return Table(atoms, fn)


def const_table(q):
    q = F(q)
    lf = LinForm(q)
    return Table([], lambda vals: lf)


def as_table(x):
    if isinstance(x, bool):
        return const_table(int(x))
    if isinstance(x, (int, F)):
        return const_table(F(x))
    if isinstance(x, float):
        return const_table(F(x))
    if isinstance(x, SInt):
        return Table([(x.e, x.lo, x.hi)], lambda vals: LinForm(F(vals[0])))
    if isinstance(x, SBool):
        return Table([(zint(x), 0, 1)], lambda vals: LinForm(F(vals[0])))
    if type(x).__module__ == 'numpy':
        try:
            return const_table(F(x.item()))
        except Exception:
            return None
    return None


UF_MODE = False
NRA_MODE = False
_UF = {}


def uf(name, *args):
    """uninterpreted total function on reals (UF mode only)"""
    key = (name, len(args))
    if key not in _UF:
        _UF[key] = z3.Function(name, *([z3.RealSort()] * (len(args) + 1)))
    return _UF[key](*args)


class SReal:
    def __init__(self, z=None, tab=None):
        self._z = z
        self.tab = tab

    @property
    def z(self):
        if self._z is None:
            self._z = self.tab.lower()
        return self._z

    @staticmethod
    def of(x):
        if isinstance(x, SReal):
            return x
        t = as_table(x)
        if t is not None:
            return SReal(tab=t)
        raise TypeError(f'not a real: {type(x)}')

    def const(s):
        """the concrete rational if this is a constant, else None"""
        if s.tab is not None and not s.tab.atoms:
            c = s.tab.get(())
            if c is not None and c.is_const():
                return c.c
        if s._z is not None and s.tab is None:
            zz = z3.simplify(s._z)
            if z3.is_rational_value(zz):
                return F(zz.numerator_as_long(), zz.denominator_as_long())
        return None

    def _tabs(s, o):
        if s.tab is None or o.tab is None:
            return False
        if not s.tab.atoms or not o.tab.atoms:
            return True
        # size of the merged table: atoms shared by both sides count once
        size = s.tab.size()
        for at in o.tab.atoms:
            if not any(x[0].eq(at[0]) for x in s.tab.atoms):
                size *= (at[2] - at[1] + 1)
        return size <= 20000

    def __add__(s, o):
        o = SReal.of(o)
        if s.tab is not None and o.tab is not None and not s.tab.atoms and not o.tab.atoms:
            return SReal(tab=tab_binop(s.tab, o.tab, lambda x, y: x.add(y)))
        return SReal(z=s.z + o.z)

    __radd__ = __add__

    def __sub__(s, o):
        o = SReal.of(o)
        if s.tab is not None and o.tab is not None and not s.tab.atoms and not o.tab.atoms:
            return SReal(tab=tab_binop(s.tab, o.tab, lambda x, y: x.add(y.scale(-1))))
        return SReal(z=s.z - o.z)

    def __rsub__(s, o):
        return SReal.of(o) - s

    def __neg__(s):
        if s.tab is not None:
            return SReal(tab=tab_binop(s.tab, const_table(-1), lambda x, y: x.scale(y.c)))
        return SReal(z=-s.z)

    def __pos__(s):
        return s

    def __abs__(s):
        return SReal(z=z3.If(s.z < 0, -s.z, s.z))

    def __mul__(s, o):
        o = SReal.of(o)
        if s._tabs(o):
            def f(x, y):
                if y.is_const():
                    return x.scale(y.c)
                if x.is_const():
                    return y.scale(x.c)
                raise ShimUnsupported('product of two logarithmic forms')
            return SReal(tab=tab_binop(s.tab, o.tab, f))
        for p, q in ((s, o), (o, s)):
            c = p.const()
            if c is not None:
                return SReal(z=z3.RealVal(str(c)) * q.z)
        if UF_MODE:
            a, b = s.z, o.z
            if str(a) > str(b):
                a, b = b, a
            return SReal(z=uf('mul', a, b))
        raise ShimUnsupported('nonlinear real multiplication')

    __rmul__ = __mul__

    def __truediv__(s, o):
        o = SReal.of(o)

        def f(x, y):
            if not y.is_const() or y.c == 0:
                return None
            return x.scale(1 / y.c)
        if s._tabs(o):
            return SReal(tab=tab_binop(s.tab, o.tab, f))
        c = o.const()
        if c is not None and c != 0:
            return SReal(z=s.z / z3.RealVal(str(c)))
        if UF_MODE:
            return SReal(z=uf('div', s.z, o.z))
        if NRA_MODE:
            # quotient as a fresh real t with  b != 0 -> t*b == a  (small nonlinear side constraint; b == 0 leaves t unconstrained,
            # the IEEE inf/nan of that case is outside the exact-real model)
            t = CTX.fresh_real('quot')
            CTX.solver.add(z3.Implies(o.z != 0, t * o.z == s.z))
            return SReal(z=t)
        raise ShimUnsupported('real division by a non-constant outside the table tier')

    def __rtruediv__(s, o):
        return SReal.of(o) / s

    def __pow__(s, k):
        if k == 2:
            return s * s
        if k == 1:
            return s
        raise ShimUnsupported('power')

    def _cmp(s, o, f):
        if isinstance(o, float) and o in (float('inf'), float('-inf')):
            return f(0, 1) if o > 0 else f(1, 0)
        try:
            o = SReal.of(o)
        except TypeError:
            return NotImplemented
        return mkbool(f(s.z, o.z))

    def __eq__(s, o):
        r = s._cmp(o, lambda a, b: a == b)
        return False if r is NotImplemented else r

    def __ne__(s, o):
        r = s._cmp(o, lambda a, b: a != b)
        return True if r is NotImplemented else r

    def __lt__(s, o):
        return s._cmp(o, lambda a, b: a < b)

    def __le__(s, o):
        return s._cmp(o, lambda a, b: a <= b)

    def __gt__(s, o):
        return s._cmp(o, lambda a, b: a > b)

    def __ge__(s, o):
        return s._cmp(o, lambda a, b: a >= b)

    __hash__ = None

    def __bool__(s):
        c = s.const()
        if c is not None:
            return c != 0
        return CTX.decide(s.z != 0)

    def __float__(s):
        c = s.const()
        if c is None:
            raise ShimUnsupported('float() of a symbolic real')
        return float(c)

    def __int__(s):
        c = s.const()
        if c is None:
            raise ShimUnsupported('int() of a symbolic real')
        return int(c)

    def __repr__(s):
        return f'SReal({s._z if s._z is not None else "table"})'


def sreal(name):
    return SReal(z=z3.Real(name))


def real_log(x):
    x = SReal.of(x)
    if x.tab is None:
        if UF_MODE:
            return SReal(z=uf('log', x.z))
        raise ShimUnsupported('log outside the table tier')
    t = x.tab

    def fn(vals):
        v = t.get(vals)
        if v is None or not v.is_const() or v.c <= 0:
            return None
        q = v.c
        lf = LinForm(0)
        for p, m in factor(q.numerator).items():
            lf = lf.add(LinForm(0, {p: F(m)}))
        for p, m in factor(q.denominator).items():
            lf = lf.add(LinForm(0, {p: F(-m)}))
        return lf
    return SReal(tab=Table(t.atoms, fn))


def ite(c, a, b):
    if c is True:
        return a
    if c is False:
        return b
    if isinstance(c, (SInt,)):
        c = mkbool(c.e != 0)
        return ite(c, a, b)
    if not isinstance(c, SBool):
        return a if c else b
    if isinstance(a, (SBool, bool)) and isinstance(b, (SBool, bool)):
        return mkbool(z3.If(c.e, zbool(a), zbool(b)))
    if isinstance(a, (SReal, float, F)) or isinstance(b, (SReal, float, F)):
        return SReal(z=z3.If(c.e, SReal.of(a).z, SReal.of(b).z))
    try:
        ea, eb = zint(a), zint(b)
    except TypeError:
        raise ShimUnsupported(f'ite over {type(a)} / {type(b)}')
    lo = min(getattr(a, 'lo', None) if isinstance(a, SInt) else int(a), getattr(b, 'lo', None) if isinstance(b, SInt) else int(b))
    hi = max(getattr(a, 'hi', None) if isinstance(a, SInt) else int(a), getattr(b, 'hi', None) if isinstance(b, SInt) else int(b))
    return SInt.mk(z3.If(c.e, ea, eb), lo, hi)


def exact_div(a, b):
    """semantics of `/` on exact values: two concrete ints give an exact rational"""
    if isinstance(a, (int, F)) and isinstance(b, (int, F)) and not isinstance(a, bool) and not isinstance(b, bool):
        if b == 0:
            raise ZeroDivisionError
        return SReal.of(F(a, b))
    if isinstance(a, (SInt, SReal, SBool)) or isinstance(b, (SInt, SReal, SBool)):
        return SReal.of(a) / SReal.of(b)
    return a / b


def ite_call(c, a, b):
    return ite(c, a, b)


def model_value(m, v):
    """concrete Python value of a symbolic thing under model m"""
    if isinstance(v, SInt):
        return m.eval(v.e, model_completion=True).as_long()
    if isinstance(v, SBool):
        return z3.is_true(m.eval(v.e, model_completion=True))
    if isinstance(v, SReal):
        r = m.eval(v.z, model_completion=True)
        if z3.is_rational_value(r):
            return F(r.numerator_as_long(), r.denominator_as_long())
        return float(r.approx(20).as_fraction())
    if isinstance(v, (list, tuple)):
        return type(v)(model_value(m, x) for x in v)
    if z3.is_expr(v):
        r = m.eval(v, model_completion=True)
        if z3.is_int_value(r):
            return r.as_long()
        if z3.is_rational_value(r):
            return F(r.numerator_as_long(), r.denominator_as_long())
        if z3.is_true(r):
            return True
        if z3.is_false(r):
            return False
        return str(r)
    return v
