"""vcheck: run the solver-based check of one property and write its evidence file.

exit 0: nothing violated on everything explored (inconclusive items are listed, known findings are
        printed as KNOWN-FINDING lines)
exit 1: >= 1 violation reproduced on the real build that known_findings.json does not list
exit 3: harness error (the machinery is wrong; never a statement about the repository)
"""
from __future__ import annotations

import argparse
import importlib
import json
import os
import sys
import time
import traceback

VERIF = os.path.dirname(os.path.dirname(os.path.abspath(__file__)))


def main():
    ap = argparse.ArgumentParser()
    ap.add_argument('id')
    ap.add_argument('--tier', default=os.environ.get('VERIF_TIER', 'quick'), choices=['quick', 'thorough'])
    ap.add_argument('--replay')
    ap.add_argument('--repo', help='analyse this copy of the repository instead of /repo (self-tests on mutants)')
    ap.add_argument('--no-evidence', action='store_true')
    ap.add_argument('--only', help='comma-separated condition names (debugging)')
    ap.add_argument('--jobs', type=int, default=int(os.environ.get('VERIF_JOBS', '0')) or (os.cpu_count() or 4))
    a = ap.parse_args()
    if a.repo:
        os.environ['VERIF_REPO'] = os.path.abspath(a.repo)
    sys.path.insert(0, VERIF)
    import logging
    logging.disable(logging.ERROR)   # the repository logs at INFO on every call; keep the check output readable
    from vlib import loader, runner
    loader.use_repo_on_syspath()
    seed = int(os.environ.get('VERIF_SEED', '0') or 0)
    try:
        H = importlib.import_module(f'harness.{a.id}')
    except ModuleNotFoundError as e:
        print(f'no harness for {a.id}: {e}', file=sys.stderr)
        return 3
    if a.replay:
        w = json.load(open(a.replay))
        r = runner.replay_in_subprocess(H, w['witness'])
        print(json.dumps(r, indent=1, default=str))
        if r.get('reproduced'):
            print(f"VIOLATION property={a.id} replay={a.replay}")
            return 1
        return 0
    try:
        return runner.run_check(H, a.id, a.tier, seed, a.jobs, write_evidence=not (a.no_evidence or a.only), only=a.only.split(',') if a.only else None)
    except Exception:
        traceback.print_exc()
        print(f'HARNESS-ERROR property={a.id}')
        return 3


if __name__ == '__main__':
    sys.exit(main())
