"""Source loader: the encoding is regenerated from the repository's working tree on every run.

load() reads <REPO>/<relpath>, optionally keeps only some definitions, applies the two
semantics-preserving AST transforms a harness may ask for, and executes the module body in a fresh
namespace while sys.modules is overlaid with the chosen stand-ins (and previously loaded outrank
modules, so intra-package imports resolve to instances loaded under the same stand-ins).
"""
from __future__ import annotations

import ast
import hashlib
import os
import sys
import types

from . import symx

REPO = os.environ.get('VERIF_REPO', '/repo')

ENCODED = []  # (name, file, first line, last line, sha1 of the source segment)


def repo_path(rel):
    return os.path.join(REPO, rel)


def use_repo_on_syspath():
    """make `import outrank...` resolve to REPO (the working tree, or a scratch copy for self-tests)"""
    if sys.path[0] != REPO:
        sys.path.insert(0, REPO)
    for k in [k for k in sys.modules if k == 'outrank' or k.startswith('outrank.')]:
        f = getattr(sys.modules[k], '__file__', '') or ''
        if not f.startswith(REPO + '/'):
            del sys.modules[k]


class _Rewriter(ast.NodeTransformer):
    def __init__(self, div, ifconv, setorder=False):
        self.div = div
        self.ifconv = ifconv
        self.setorder = setorder

    # set-order abstraction: every set built by the module (set(...) call, set display, set comprehension) becomes __symset(...),
    # a set whose ITERATION ORDER is an arbitrary (solver-chosen) permutation - models PYTHONHASHSEED for sets of str
    def visit_Call(self, node):
        self.generic_visit(node)
        if self.setorder and isinstance(node.func, ast.Name) and node.func.id == 'set':
            return ast.copy_location(ast.Call(func=ast.Name('__symset', ast.Load()), args=node.args, keywords=node.keywords), node)
        return node

    def visit_SetComp(self, node):
        self.generic_visit(node)
        if not self.setorder:
            return node
        gen = ast.GeneratorExp(elt=node.elt, generators=node.generators)
        return ast.copy_location(ast.Call(func=ast.Name('__symset', ast.Load()), args=[gen], keywords=[]), node)

    def visit_Set(self, node):
        self.generic_visit(node)
        if not self.setorder:
            return node
        return ast.copy_location(ast.Call(func=ast.Name('__symset', ast.Load()), args=[ast.List(elts=node.elts, ctx=ast.Load())], keywords=[]), node)

    def visit_BinOp(self, node):
        self.generic_visit(node)
        if self.div and isinstance(node.op, ast.Div):
            return ast.copy_location(ast.Call(func=ast.Name('__div', ast.Load()), args=[node.left, node.right], keywords=[]), node)
        return node

    def visit_If(self, node):
        self.generic_visit(node)
        if not self.ifconv:
            return node
        simple = (not node.orelse and node.body and all(
            isinstance(s, ast.AugAssign) and isinstance(s.target, ast.Name) for s in node.body))
        if not simple:
            return node
        out = [ast.Assign(targets=[ast.Name('__c', ast.Store())], value=node.test)]
        for s in node.body:
            newv = ast.BinOp(left=ast.Name(s.target.id, ast.Load()), op=s.op, right=s.value)
            if self.div and isinstance(s.op, ast.Div):
                newv = ast.Call(func=ast.Name('__div', ast.Load()), args=[newv.left, newv.right], keywords=[])
            out.append(ast.Assign(
                targets=[ast.Name(s.target.id, ast.Store())],
                value=ast.Call(func=ast.Name('__ite', ast.Load()),
                               args=[ast.Name('__c', ast.Load()), newv, ast.Name(s.target.id, ast.Load())], keywords=[])))
        return [ast.copy_location(x, node) for x in out]


def _is_main_guard(n):
    return (isinstance(n, ast.If) and isinstance(n.test, ast.Compare) and isinstance(n.test.left, ast.Name)
            and n.test.left.id == '__name__')


def numba_stub():
    numba = types.ModuleType('numba')
    numba.njit = lambda *a, **k: (a[0] if (len(a) == 1 and callable(a[0]) and not k) else (lambda f: f))
    numba.jit = numba.njit
    numba.prange = range
    return numba


def tqdm_stub():
    m = types.ModuleType('tqdm')

    class _T:
        def __init__(self, *a, **k):
            pass

        def update(self, *a):
            pass

        def set_description(self, *a, **k):
            pass

        def close(self):
            pass

        def __enter__(self):
            return self

        def __exit__(self, *a):
            return False
    m.tqdm = _T
    return m


def record_functions(relpath, names=None):
    """register name/file/line span/sha1 of the definitions of relpath (all top-level defs when names is None)"""
    path = repo_path(relpath)
    src = open(path).read()
    tree = ast.parse(src)
    lines = src.splitlines()
    out = []

    def visit(body, prefix=''):
        for n in body:
            if isinstance(n, (ast.FunctionDef, ast.ClassDef)):
                q = prefix + n.name
                if names is None or q in names or n.name in names:
                    seg = '\n'.join(lines[n.lineno - 1:n.end_lineno])
                    ent = {'name': q, 'file': relpath, 'lines': [n.lineno, n.end_lineno], 'sha1': hashlib.sha1(seg.encode()).hexdigest()[:12]}
                    out.append(ent)
                if isinstance(n, ast.ClassDef):
                    visit(n.body, q + '.')
    visit(tree.body)
    for e in out:
        if e not in ENCODED:
            ENCODED.append(e)
    return out


def load(relpath, shims=None, div=False, ifconv=False, only=None, extra=None, modname=None, record=None, setorder=False):
    path = repo_path(relpath)
    src = open(path).read()
    tree = ast.parse(src)
    body = [n for n in tree.body if not _is_main_guard(n)]
    if only is not None:
        keep = []
        for n in body:
            if isinstance(n, (ast.FunctionDef, ast.ClassDef)) and n.name in only:
                keep.append(n)
            elif isinstance(n, (ast.Assign, ast.AnnAssign)):
                tg = n.targets[0] if isinstance(n, ast.Assign) else n.target
                if isinstance(tg, ast.Name) and tg.id in only:
                    keep.append(n)
        # ... and, transitively, every module-level function / class / simple assignment those definitions refer to by name (a helper
        # added next to a kept function must come along), unless the caller supplies that name itself
        supplied = set(extra or {})
        defs = {}
        for n in body:
            if isinstance(n, (ast.FunctionDef, ast.ClassDef)):
                defs[n.name] = n
            elif isinstance(n, (ast.Assign, ast.AnnAssign)) and getattr(n, 'value', None) is not None:
                tg = n.targets[0] if isinstance(n, ast.Assign) else n.target
                if isinstance(tg, ast.Name):
                    defs.setdefault(tg.id, n)
        imports = {}
        for n in body:
            if isinstance(n, (ast.Import, ast.ImportFrom)) and not (isinstance(n, ast.ImportFrom) and n.module == '__future__'):
                for a in n.names:
                    imports.setdefault(a.asname or a.name.split('.')[0], n)
        kept = {id(n) for n in keep}
        work = list(keep)
        while work:
            cur = work.pop()
            for sub in ast.walk(cur):
                if isinstance(sub, ast.Name) and sub.id in defs and sub.id not in supplied and id(defs[sub.id]) not in kept:
                    kept.add(id(defs[sub.id]))
                    work.append(defs[sub.id])
                elif isinstance(sub, ast.Name) and sub.id in imports and sub.id not in supplied and sub.id not in defs:
                    kept.add(id(imports[sub.id]))      # an import the kept code needs and the caller does not supply (shims still apply)
        body = [n for n in body if id(n) in kept]
    tree.body = body
    if div or ifconv or setorder:
        tree = _Rewriter(div, ifconv, setorder).visit(tree)
    tree = ast.fix_missing_locations(tree)
    shims = dict(shims or {})
    saved = {k: sys.modules.get(k) for k in shims}
    sys.modules.update(shims)
    modname = modname or ('verif_loaded.' + relpath[:-3].replace('/', '.'))
    holder = types.ModuleType(modname)      # registered so that dataclasses / pickling find the defining module
    ns = holder.__dict__
    ns.update({'__name__': modname, '__file__': path, '__div': symx.exact_div, '__ite': symx.ite_call})
    if extra:
        ns.update(extra)
    sys.modules[modname] = holder
    try:
        exec(compile(tree, path, 'exec'), ns)
    finally:
        for k, v in saved.items():
            if v is None:
                sys.modules.pop(k, None)
            else:
                sys.modules[k] = v
    record_functions(relpath, record if record is not None else only)
    return ns


def as_module(ns, name):
    m = types.ModuleType(name)
    m.__dict__.update(ns)
    return m
