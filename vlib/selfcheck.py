"""Differential validation of the stand-ins on concrete values (run at the start of every harness that relies on them).

sympd is compared with the real pandas, xnp with the real numpy, operation by operation, on small frames/arrays that include the
cases the anchored code depends on (ties in sorts, even-sized groups, duplicate keys, empty strings, unicode). A disagreement
raises HarnessError: the check then exits 3 instead of reporting anything about the repository.
"""
from __future__ import annotations

from .symx import HarnessError


def check_sympd():
    import pandas as pd
    from . import sympd
    rows = [['b', 'x', 2.0], ['a', 'y', 5.0], ['b', 'x', 1.0], ['a', 'x', 5.0], ['c', '', -1.5], ['b', 'x', 7.0], ['é', 'y', 0.0], ['a', 'y', 3.0]]
    cols = ['A', 'B', 'S']
    R, M = pd.DataFrame(rows, columns=cols), sympd.DataFrame(rows, columns=cols)
    probs = []

    def same(name, real, mine):
        if real != mine:
            probs.append(f'{name}: pandas {real} vs stand-in {mine}')
    same('shape', tuple(R.shape), tuple(M.shape))
    same('columns', list(R.columns), list(M.columns))
    same('col tolist', R['A'].tolist(), M['A'].tolist())
    same('unique', list(R['A'].unique()), list(M['A'].unique()))
    g1 = R.groupby(['A', 'B'], as_index=False).median()
    g2 = M.groupby(['A', 'B'], as_index=False).median()
    same('groupby2 median', g1.values.tolist(), [list(r) for r in g2.rows])
    g1 = R[['A', 'S']].groupby('A').median().reset_index()
    g2 = M[['A', 'S']].groupby('A').median().reset_index()
    same('groupby1 median', g1.values.tolist(), [list(r) for r in g2.rows])
    same('groupby sort=False', R[['A', 'S']].groupby('A', sort=False).median().reset_index().values.tolist(), [list(r) for r in M[['A', 'S']].groupby('A', sort=False).median().reset_index().rows])
    same('groupby mean', R[['A', 'S']].groupby('A').mean().reset_index().values.tolist(), [list(r) for r in M[['A', 'S']].groupby('A').mean().reset_index().rows])
    for asc in (True, False):
        s1 = R.sort_values(by='S', ascending=asc, kind='stable') if False else R.sort_values(by='S', ascending=asc)
        s2 = M.sort_values(by='S', ascending=asc)
        # pandas' default sort is not stable for ties in every version: compare the score sequence and, for tie-free keys, the rows
        same(f'sort_values asc={asc} keys', s1['S'].tolist(), s2['S'].tolist())
    s1 = R.sort_values(by=['S'], kind='stable')
    same('stable sort rows', s1.values.tolist(), [list(r) for r in M.sort_values(by=['S']).rows])
    same('min/max', (R['S'].min(), R['S'].max()), (M['S'].min(), M['S'].max()))
    same('arith', ((R['S'] - 1.0) / 2.0).tolist(), ((M['S'] - 1.0) / 2.0).tolist())
    same('astype str +', (R['A'].astype(str) + R['B'].astype(str)).tolist(), (M['A'].astype(str) + M['B'].astype(str)).tolist())
    same('str.len', R['A'].str.len().tolist(), M['A'].str.len().tolist())
    same('str.contains', R['A'].str.contains('b').tolist(), M['A'].str.contains('b').tolist())
    same('apply', R['A'].apply(lambda v: v + '!').tolist(), M['A'].apply(lambda v: v + '!').tolist())
    c1 = pd.concat([R, pd.DataFrame({'N': list(range(8))})], axis=1)
    c2 = sympd.concat([M, sympd.DataFrame({'N': list(range(8))})], axis=1)
    same('concat axis=1', (list(c1.columns), c1.values.tolist()), (list(c2.columns), [list(r) for r in c2.rows]))
    e1 = pd.concat([R[['A']], pd.DataFrame({})], axis=1)
    e2 = sympd.concat([M[['A']], sympd.DataFrame({})], axis=1)
    same('concat with an empty frame', (list(e1.columns), e1.values.tolist()), (list(e2.columns), [list(r) for r in e2.rows]))
    i1 = pd.concat([R[['A']], pd.DataFrame({})], axis=1, join='inner')
    i2 = sympd.concat([M[['A']], sympd.DataFrame({})], axis=1, join='inner')
    same('inner concat with an empty frame', (list(i1.columns), i1.shape[0]), (list(i2.columns), len(i2.rows)))
    same('iterrows', [(r['A'], r['S']) for _, r in R.iterrows()], [(r['A'], r['S']) for _, r in M.iterrows()])
    same('bool index', R[R['A'].str.contains('a')].values.tolist(), [list(r) for r in M[M['A'].str.contains('a')].rows])
    same('empty', (pd.DataFrame([], columns=cols).empty, R.empty), (sympd.DataFrame([], columns=cols).empty, M.empty))
    same('from dicts', pd.DataFrame([{'F': 'a', 'v': 1.0}, {'F': 'b', 'v': 2.0}]).values.tolist(), [list(r) for r in sympd.DataFrame([{'F': 'a', 'v': 1.0}, {'F': 'b', 'v': 2.0}]).rows])
    same('drop_duplicates', R[['A', 'B']].drop_duplicates().values.tolist(), [list(r) for r in M[['A', 'B']].drop_duplicates().rows])
    same('median even/odd', (float(pd.Series([3.0, 1.0, 2.0, 10.0]).median()), float(pd.Series([3.0, 1.0, 2.0]).median())), (sympd.median([3.0, 1.0, 2.0, 10.0]), sympd.median([3.0, 1.0, 2.0])))
    if probs:
        raise HarnessError('sympd disagrees with pandas: ' + '; '.join(probs[:4]))
    return 27


def check_xnp():
    import numpy as np
    from . import xnp
    probs = []

    def same(name, real, mine):
        if real != mine:
            probs.append(f'{name}: numpy {real} vs stand-in {mine}')
    a = [3, 0, 3, 1, 0, 7, 3]
    A, X = np.array(a), xnp.Arr(a, 'int32')
    same('max/min/sum', (int(A.max()), int(A.min()), int(A.sum())), (xnp.max(X), xnp.min(X), xnp.sum(X)))
    same('nonzero', np.nonzero(A)[0].tolist(), xnp.nonzero(X)[0].data)
    same('where', np.where(A == 3)[0].tolist(), xnp.where(X == 3)[0].data)
    same('count_nonzero', int(np.count_nonzero(A == 3)), xnp.count_nonzero(X == 3))
    same('fancy', A[np.array([0, 5, 2])].tolist(), X[xnp.Arr([0, 5, 2])].data)
    same('slice', A[1:4].tolist(), X[1:4].data)
    u, inv, cnt = np.unique(A, return_inverse=True, return_counts=True)
    u2, inv2, cnt2 = xnp.unique(X, return_inverse=True, return_counts=True)
    same('unique', (u.tolist(), inv.tolist(), cnt.tolist()), (u2.data, inv2.data, cnt2.data))
    same('argsort stable', np.argsort(A, kind='stable').tolist(), xnp.argsort(X).data)
    same('sort', np.sort(A).tolist(), xnp.sort(X).data)
    same('bincount', np.bincount(A, minlength=9).tolist(), xnp.bincount(X, minlength=9).data)
    same('array_equal', (bool(np.array_equal(A, A)), bool(np.array_equal(A, A + 1))), (xnp.array_equal(X, X) is True or bool(xnp.array_equal(X, X)), bool(xnp.array_equal(X, X + 1))))
    S = np.sort(A)
    same('searchsorted', (np.searchsorted(S, np.array([0, 3, 4, 9]), side='right').tolist(), np.searchsorted(S, np.array([0, 3, 4, 9])).tolist()),
         (xnp.searchsorted(xnp.sort(X), xnp.Arr([0, 3, 4, 9]), side='right').data, xnp.searchsorted(xnp.sort(X), xnp.Arr([0, 3, 4, 9])).data))
    big = [0, 99999, 100000, 2 ** 20 - 2]
    for d in (0, 1, 2, 11):
        same(f'allclose +{d}', bool(np.allclose(np.array(big), np.array(big) + d)), bool(xnp.allclose(xnp.Arr(big), xnp.Arr([v + d for v in big]))))
        same(f'allclose tail +{d}', bool(np.allclose(np.array(big[2:]), np.array(big[2:]) + d)), bool(xnp.allclose(xnp.Arr(big[2:]), xnp.Arr([v + d for v in big[2:]]))))
    z = xnp.zeros(10 ** 6)
    zr = np.zeros(10 ** 6, dtype=np.int64)
    for i in (5, 999999, 5, 17):
        z[i] = z[i] + 1
        zr[i] += 1
    same('sparse zeros', (np.nonzero(zr)[0].tolist(), int(zr.max())), (xnp.nonzero(z)[0].data, xnp.max(z)))
    if probs:
        raise HarnessError('xnp disagrees with numpy: ' + '; '.join(probs[:4]))
    return 21
