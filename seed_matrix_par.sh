#!/bin/bash
# Seed matrix, parallel variant: every archived seeded change is applied in its own scratch worktree of /repo HEAD and the property's
# quick check analyses that copy (--repo); outcomes go to seeded/<id>/meta.json exactly as seed_matrix.sh writes them. /repo itself is
# never touched, so several seeds run at once (P jobs, default 3). seed_matrix.sh is the sequential variant that patches /repo itself.
cd /verif
P=${P:-3}
one() {
  d=$1; n=$(basename $d); id=${n:0:3}
  out=$(VERIF_JOBS=${VERIF_JOBS:-6} ./seedtest_wt.sh $d $id quick 2>&1)
  ex=$(echo "$out" | grep -o "check-exit=[0-9]*" | cut -d= -f2)
  what=$(echo "$out" | grep -m1 "what:" | cut -c1-300)
  if echo "$out" | grep -q "PATCH DOES NOT APPLY"; then ex=-2; what="patch no longer applies to /repo HEAD"; fi
  python3 - "$d" "$ex" "$what" <<'PY'
import json, sys
d, ex, what = sys.argv[1:4]
m = json.load(open(d + '/meta.json'))
m['detection'] = {'check': './vcheck ' + m['property'] + ' --tier quick', 'exit': int(ex or -1), 'caught': ex == '1', 'first_violation': what.strip(),
                  'how': 'patch applied in a scratch worktree of /repo HEAD, check run with --repo on that copy (seed_matrix_par.sh)'}
json.dump(m, open(d + '/meta.json', 'w'), indent=1)
print(d, 'caught' if ex == '1' else 'MISSED (exit %s)' % ex, flush=True)
PY
}
export -f one
ls -d seeded/C??-* | { [ -n "$1" ] && grep "$1" || cat; } | xargs -P $P -I{} bash -c 'one {}'
