#!/bin/bash
# run every registered check (default quick) and print one summary line per property
cd "$(dirname "$0")"
TIER=${1:-quick}
for i in $(python3 -c "import json; print(' '.join(c['property_id'] for c in json.load(open('MANIFEST.json'))['checks']))"); do
  s=$(date +%s)
  out=$(./vcheck $i --tier $TIER 2>&1); ex=$?
  e=$(date +%s)
  echo "$i exit=$ex wall=$((e-s))s $(echo "$out" | grep -E '^\[' | cut -c1-160)"
  echo "$out" | grep -E "VIOLATION|HARNESS-ERROR|INCONCLUSIVE|KNOWN-FINDING" | cut -c1-300 | head -5
done
