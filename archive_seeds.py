#!/usr/bin/env python3
"""copy confirmed seeded changes from /tmp/seed-out into /verif/seeded/<id>/ (patch.diff, demo.py, meta.json)"""
import glob, json, os, shutil, sys
conf = {}
for f in glob.glob('/tmp/wt/confirm_*.jsonl'):
    for l in open(f):
        l = l.strip()
        if l.startswith('{'):
            try:
                d = json.loads(l)
                conf[d['seed']] = d
            except Exception:
                pass
for d in sorted(glob.glob('/tmp/seed-out/C??-[0-9]')):
    name = os.path.basename(d)
    c = conf.get(name)
    if not c:
        continue
    t = c.get('tests', '')
    ok = c.get('demo_unpatched_exit') == 0 and c.get('demo_patched_exit', 0) != 0 and (('58 passed' in t and 'failed' not in t) or ('57 passed' in t and c.get('failed', '').count('FAILED') == 1 and 'test_compute_combinations' in c.get('failed', '')))
    if not ok:
        print('NOT CONFIRMED', name, c)
        continue
    dst = os.path.join('/verif/seeded', name)
    os.makedirs(dst, exist_ok=True)
    old_meta = json.load(open(os.path.join(dst, 'meta.json'))) if os.path.exists(os.path.join(dst, 'meta.json')) else {}
    if not old_meta.get('note'):      # a patch re-based by hand onto a repaired tree is kept
        shutil.copy(os.path.join(d, 'patch.diff'), dst)
    shutil.copy(os.path.join(d, 'demo.py'), dst)
    try:
        m = json.load(open(os.path.join(d, 'meta.json')))
    except Exception:
        m = {}
    old = {}
    if os.path.exists(os.path.join(dst, 'meta.json')):
        old = json.load(open(os.path.join(dst, 'meta.json')))
    meta = {
        'property': name[:3], 'breaks': m.get('summary', ''), 'needs_to_manifest': m.get('needs_to_manifest', ''), 'files': m.get('files', []),
        'origin': 'written by an independent sub-agent that saw only the property text and its own scratch worktree',
        'confirmed_by_me': {'how': 'confirm_seed.sh: fresh scratch worktree of /repo HEAD; demo.py without the patch, demo.py with the patch, full pytest suite with the patch',
                            'demo_unpatched_exit': c['demo_unpatched_exit'], 'demo_patched_exit': c['demo_patched_exit'], 'tests_with_patch': c['tests'], 'failing_tests_with_patch': c['failed']},
        'detection': old.get('detection', {}),
    }
    if old.get('note'):
        meta['note'] = old['note']
    json.dump(meta, open(os.path.join(dst, 'meta.json'), 'w'), indent=1)
    print('archived', name)
