#!/usr/bin/env python3
"""rewrite the seeded-changes table of DESIGN.md from seeded/*/meta.json"""
import glob, json, os, re
V = os.path.dirname(os.path.abspath(__file__))
rows = ['| seed | property | what the change does (needs to manifest) | caught by | first violation reported |', '|---|---|---|---|---|']
for d in sorted(glob.glob(os.path.join(V, 'seeded', 'C??-*'))):
    m = json.load(open(os.path.join(d, 'meta.json')))
    det = m.get('detection') or {}
    esc = lambda s: str(s).replace('|', '\\|').replace('\n', ' ')
    what = esc(m.get('breaks', ''))[:220]
    need = esc(m.get('needs_to_manifest', ''))[:160]
    caught = ('`' + det.get('check', '') + '` exit 1') if det.get('caught') else (f"NOT caught (exit {det.get('exit')})" if det else 'not run yet')
    rows.append(f"| {os.path.basename(d)} | {m['property']} | {what} — *needs:* {need} | {caught} | {esc(det.get('first_violation', ''))[:160]} |")
p = os.path.join(V, 'DESIGN.md')
s = open(p).read()
a, b = s.index('<!-- SEED-TABLE-BEGIN -->'), s.index('<!-- SEED-TABLE-END -->')
s = s[:a] + '<!-- SEED-TABLE-BEGIN -->\n' + '\n'.join(rows) + '\n' + s[b:]
open(p, 'w').write(s)
print(len(rows) - 2, 'seeds')
