#!/bin/bash
# usage: tools_mut.sh <ID> <relfile> <sed-expr> [tier]   -- run a check against a scratch copy of /repo with one sed mutation
set -e
ID=$1; F=$2; EX=$3; TIER=${4:-quick}
D=$(mktemp -d /var/tmp/outrank-mut.XXXXXX)
trap 'rm -rf "$D"' EXIT
rsync -a --exclude .git --exclude '__pycache__' --exclude '*.egg-info' /repo/ "$D/"
sed -i "$EX" "$D/$F"
if diff -q /repo/$F "$D/$F" >/dev/null; then echo "MUTATION DID NOT APPLY"; exit 2; fi
diff <(cat /repo/$F) "$D/$F" | head -6
cd /verif && NUMBA_CACHE_DIR=$D/.nbcache ./vcheck $ID --tier $TIER --repo "$D" --no-evidence 2>&1 | grep -v conda | tail -12
echo "exit=$?"
