#!/usr/bin/env python3
"""regenerate MANIFEST.json from the harness modules (text only: no check is run)"""
import ast, json, os, re
V = os.path.dirname(os.path.abspath(__file__))
props = [json.loads(l) for l in open(os.path.join(V, 'properties.jsonl'))]
PENDING = 'harness not built yet in this session (planned: see DESIGN.md section 4)'
NA = json.load(open(os.path.join(V, 'not_applicable.json'))) if os.path.exists(os.path.join(V, 'not_applicable.json')) else {}
checks, na = [], []
for p in props:
    pid = p['id']
    hp = os.path.join(V, 'harness', pid + '.py')
    if pid in NA or not os.path.exists(hp):
        na.append({'property_id': pid, 'reason': NA.get(pid, PENDING)})
        continue
    src = open(hp).read()
    m = re.search(r'^MANIFEST = (\{.*?^\})', src, re.S | re.M)
    d = ast.literal_eval(m.group(1)) if m else {}
    checks.append({
        'property_id': pid,
        'quick_cmd': f'./vcheck {pid} --tier quick',
        'thorough_cmd': f'./vcheck {pid} --tier thorough',
        'evidence_file': f'evidence/{pid}.json',
        'replay_cmd_template': f'./vcheck {pid} --replay {{path}}',
        'engine': d.get('engine', 'symx'),
        'level_claimed': {'category': 'model_checking', 'text': d.get('text', ''), 'design_ref': d.get('design_ref', f'DESIGN.md section 4, {pid}')},
        'level_note': d.get('note', ''),
        'technique': d.get('technique', 'bounded symbolic execution of the real Python source with z3 (symx)'),
    })
man = {
    'version': 1,
    'setup_cmd': './setup.sh',
    'hooks': {'guard': 'OUTRANK_VERIF', 'enable': 'no hooks: the checks load the source files of /repo directly (vlib/loader.py) and import the real package for replays',
              'baseline_off_cmd': 'cd /repo && /venv/bin/python -m pytest -ra -q -p no:cacheprovider --timeout=900 --continue-on-collection-errors',
              'source_commits': [], 'add_only': True},
    'engines': [
        {'name': 'symx', 'path': 'vlib/symx.py', 'kind_free_text': 'own symbolic executor: real source under CPython on z3-carrying values, DFS over solver-decided branches, coverage certificate', 'serves_properties': [c['property_id'] for c in checks if c['engine'] == 'symx']},
        {'name': 'crosshair', 'path': 'vlib/chrun.py', 'kind_free_text': 'crosshair-tool 0.0.110 (symbolic strings)', 'serves_properties': [c['property_id'] for c in checks if c['engine'] != 'symx']},
    ],
    'checks': checks,
    'not_applicable': na,
    'notes': 'exit 0 = held on everything explored; 1 = violation reproduced on the real build and not listed in known_findings.json; 3 = harness error. See DESIGN.md.',
}
json.dump(man, open(os.path.join(V, 'MANIFEST.json'), 'w'), indent=1)
print('checks:', [c['property_id'] for c in checks], 'n/a:', len(na))
