#!/bin/bash
# run every archived seeded change against the check of its property (quick tier) and record the outcome in seeded/<id>/meta.json
cd /verif
for d in seeded/C??-*; do
  n=$(basename $d); id=${n:0:3}
  [ -n "$1" ] && [[ "$n" != $1* ]] && continue
  out=$(./seedtest.sh $d $id quick 2>&1)
  ex=$(echo "$out" | grep -o "check-exit=[0-9]*" | cut -d= -f2)
  what=$(echo "$out" | grep -m1 "what:" | cut -c1-300)
  if echo "$out" | grep -q "PATCH DOES NOT APPLY"; then ex=-2; what="patch no longer applies to /repo HEAD (written against an earlier commit)"; fi
  python3 - "$d" "$ex" "$what" <<'P'
import json, sys
d, ex, what = sys.argv[1:4]
m = json.load(open(d + '/meta.json'))
m['detection'] = {'check': './vcheck ' + m['property'] + ' --tier quick', 'exit': int(ex or -1), 'caught': ex == '1', 'first_violation': what.strip()}
json.dump(m, open(d + '/meta.json', 'w'), indent=1)
print(d, 'caught' if ex == '1' else 'MISSED (exit %s)' % ex)
P
done
