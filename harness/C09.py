"""C09 - results independent of worker count and scheduling, and reproducible (symx: the schedule and set-iteration order are data)."""
from __future__ import annotations

import copy
import os
import random
import subprocess
import sys
import types
import json

import z3

from harness import kernel as KM
from harness import pipeline as PL
from vlib import hutil, loader, symx
from vlib.symx import SInt

ID = 'C09'

MANIFEST = {
    'engine': 'symx',
    'text': 'The OS scheduler is not what a solver can decide; the pool is replaced by its documented contract and the SCHEDULE becomes data: a symbolic evaluation order of the tasks, a symbolic partition into 1..3 workers (each worker runs on its own copy of the module-level state, as a forked process would), a symbolic completion order for unordered maps, a symbolic permutation for random.shuffle, and - for fresh-run reproducibility - a symbolic iteration order of every set the batch code builds (models PYTHONHASHSEED). The real mixed_rank_graph / get_importances_estimate_pairwise / get_grouped_df / compute_batch_ranking run with the real numba scorer on a concrete 8-row frame; on every path the triplets, their aggregation and every (pair -> score) must equal the serial reference, and each score must equal a direct recomputation for the names carried in its triplet. Pool workers persist across map calls of one pool: a second mini-batch with other data goes through the same pool and must equal a fresh serial run; runs with a sampling ratio < 1 are compared as well. The mapped closure reaches a worker by pickling: for two further frames (an id-like column at ratio 0.5; columns named like interaction features) every worker runs its own deep copy of the closure, the reference gives every task its own copy, and candidates are replayed on the REAL pathos pool at several sizes, task orders and chunk sizes.',
    'note': 'Schedules of the 4 tasks of a target-only batch (24 orders x worker partitions) and of 3-5 tasks for shuffle/set-order; the OS scheduler, pathos internals and real process start-up are outside (contract stub); surrogate heuristics drawing from per-worker RNG state are outside. A set-order dependence is confirmed by re-running the real pipeline under different PYTHONHASHSEED values.',
    'technique': 'solver-driven bounded exploration of schedules over the real Python code with a contract stub of the pool and an AST-level set-order abstraction (z3 decides every schedule choice; coverage certificate)',
}

BOUNDS = {'quick': {'schedule': 3, 'shuffle': 1, 'setorder': 1}, 'thorough': {'schedule': 4, 'shuffle': 1, 'setorder': 1, 'pairwise-schedule': 1}}
INFO = {
    'engine': 'symx + z3 (schedule variables concretised by decisions) + real pandas + compiled kernel',
    'explanation': 'see level text',
    'bounds': {t: {'schedule': f'4 tasks, every evaluation order, every assignment to <= {b["schedule"]} workers, ordered and unordered result delivery', 'shuffle': 'every permutation of the 4 target-only combinations; pairwise (13 combinations): every choice of the first three, tail in order',
                   'setorder': 'every iteration order of the 3-4 element focus set'} for t, b in BOUNDS.items()},
    'outside': ['the OS scheduler and pathos internals', 'pool sizes above the bound (argued: a worker only ever sees its own task list)', 'surrogate heuristics'],
    'assumptions': ['pathos amap/map/imap return results in input order, uimap in completion order', 'each worker starts from a copy of the parent module state'],
    'job_timeout': {'quick': 300, 'thorough': 1800},
}

COLS = ['fa', 'fb', 'fc', 'label']
# the corrected score is not symmetric on these frames (score(fa|fb) != score(fb|fa) ...) and every feature-label score is non-zero
FRAME = [['c', 'q', 'u', '1'], ['b', 'q', 'w', '0'], ['b', 'p', 'u', '0'], ['a', 'q', 'v', '0'], ['b', 'q', 'w', '1'], ['a', 'p', 'w', '0'], ['c', 'q', 'v', '1'], ['c', 'q', 'w', '1']]


# a larger frame for the runs with a sampling ratio < 1 (the sampled rows must matter for the scores)
FRAME_R = [['c', 'p', 'v', '0'], ['c', 'p', 'w', '1'], ['b', 'p', 'v', '0'], ['a', 'q', 'w', '1'], ['c', 'p', 'u', '0'], ['c', 'q', 'v', '1'], ['c', 'p', 'v', '0'], ['a', 'p', 'v', '1'],
           ['c', 'p', 'w', '0'], ['b', 'q', 'u', '1'], ['a', 'p', 'w', '0'], ['a', 'q', 'w', '1']]


# a second mini-batch (same columns, other values, other scores) for the two-batch history
FRAME_B = [['b', 'p', 'v', '0'], ['b', 'p', 'u', '1'], ['c', 'q', 'v', '0'], ['b', 'p', 'u', '1'], ['a', 'q', 'u', '0'], ['b', 'q', 'v', '1'], ['c', 'q', 'w', '0'], ['c', 'q', 'u', '0']]


def lehmer(ctx_vars, n, decide_int, bounds=None):
    """permutation of range(n) from Lehmer-code variables (variables beyond len(ctx_vars) are 0: the tail keeps its order);
    a variable whose declared range is wider than needed is reduced modulo the number of remaining elements (still onto)"""
    rest = list(range(n))
    out = []
    for i in range(n):
        if i < len(ctx_vars) and len(rest) > 1:
            hi = bounds[i] if bounds else n - 1 - i
            k = decide_int(ctx_vars[i], 0, hi) % len(rest)
        else:
            k = 0
        out.append(rest.pop(k))
    return out


class SchedPool:
    """contract stub of a pathos pool: tasks evaluated in a given order on a given partition into workers. Worker processes are
    forked on first use (each starts from a copy of the parent's module state at that moment) and PERSIST across map calls of the
    same pool object, as real pool workers do; the parent's own state is untouched by what workers do."""

    def __init__(self, order, workers, unordered_perm, state_modules, pickled=False):
        self.order, self.workers, self.uperm, self.mods = order, workers, unordered_perm, state_modules
        self.wstate = {}
        self.pickled = pickled      # the mapped function travels to a worker by pickling: every worker of a map call runs its own deep copy of the closure
        self.ncpus = self.nodes = max(workers) + 1 if workers else 1

    def __enter__(self):
        return self

    def __exit__(self, *a):
        return False

    def _snapshot(self):
        import numpy as np
        return (random.getstate(), np.random.get_state(), PL.snapshot_state(self.mods))

    def _restore(self, snap):
        import numpy as np
        random.setstate(snap[0])
        np.random.set_state(snap[1])
        PL.restore_state(snap[2])

    def _run(self, f, items):
        items = list(items)
        n = len(items)
        order = self.order[:n] if sorted(self.order[:n]) == list(range(n)) else list(range(n))
        parent = self._snapshot()
        res = [None] * n
        clones = {}
        for t in order:
            w = self.workers[t] if t < len(self.workers) else 0
            self._restore(self.wstate.get(w, parent))
            if self.pickled and w not in clones:
                clones[w] = clone_closure(f)
            res[t] = (clones[w] if self.pickled else f)(items[t])
            self.wstate[w] = self._snapshot()
        self._restore(parent)
        return res, order

    def amap(self, f, items):
        return PL._Res(self._run(f, items)[0])

    def map(self, f, items):
        return self._run(f, items)[0]

    imap = map

    def uimap(self, f, items):
        res, order = self._run(f, items)
        return [res[t] for t in order]

    def close(self):
        pass

    def join(self):
        pass


def clone_closure(f):
    """what unpickling in a worker gives: the same code over a deep copy of everything the closure captured"""
    import copy
    if not getattr(f, '__closure__', None):
        return f
    cells = tuple(types.CellType(copy.deepcopy(c.cell_contents)) for c in f.__closure__)
    return types.FunctionType(f.__code__, f.__globals__, f.__name__, f.__defaults__, cells)


# an id-like column (more distinct values than sampled rows at ratio 0.5) among ordinary ones, for the runs in pairwise mode
COLS_ID = ['fa', 'id', 'label']
FRAME_ID = [['c', 'i0', '0'], ['c', 'i1', '1'], ['b', 'i2', '0'], ['a', 'i3', '1'], ['c', 'i4', '0'], ['c', 'i5', '1'], ['c', 'i6', '0'], ['a', 'i7', '1'],
            ['c', 'i0', '0'], ['b', 'i1', '1'], ['a', 'i2', '0'], ['a', 'i7', '1']]


# columns named like constructed interaction features next to their constituents (pairs of names whose joined texts coincide)
COLS_AND = ['fa', 'fc', 'fb AND fc', 'fa AND fb', 'label']
FRAME_AND = [['c', 'u', 'x', 'p', '1'], ['b', 'w', 'y', 'q', '0'], ['b', 'u', 'x', 'q', '0'], ['a', 'v', 'z', 'p', '0'], ['b', 'w', 'y', 'p', '1'], ['a', 'w', 'x', 'r', '0'],
             ['c', 'v', 'z', 'q', '1'], ['c', 'w', 'y', 'r', '1']]
FRAMES = {True: (FRAME_ID, COLS_ID), 'id': (FRAME_ID, COLS_ID), 'and': (FRAME_AND, COLS_AND)}


def make_args(**over):
    a = types.SimpleNamespace(heuristic='MI-numba-randomized', label_column='label', target_ranking_only='True', combination_number_upper_bound=10 ** 4, reference_model_JSON='',
                              mi_stratified_sampling_ratio=1.0, feature_set_focus=None, transformers='none', explode_multivalue_features='False', subfeature_mapping='False',
                              interaction_order=1, include_noise_baseline_features='False', missing_value_symbols=',{}', max_unique_hist_constraint=30000, task='ranking', rare_value_count_upper_bound=1)
    for k, v in over.items():
        setattr(a, k, v)
    return a


def rank(cr, pool, args, shuffle=None, frame=None, fresh=True, cols=None):
    import pandas as pd
    if fresh:
        PL.fresh_state()
    cr.GLOBAL_PRIOR_COMB_COUNTS.clear()
    saved = cr.random.shuffle
    if shuffle is not None:
        cr.random = types.SimpleNamespace(shuffle=shuffle, seed=lambda *a, **k: None)
    try:
        res = cr.mixed_rank_graph(pd.DataFrame(frame if frame is not None else (FRAME if float(args.mi_stratified_sampling_ratio) >= 1.0 else FRAME_R), columns=cols or COLS), args, pool, PL.PB())
    finally:
        if shuffle is not None:
            cr.random = random
    trip = [tuple(t) for t in res.triplet_scores]
    g = cr.get_grouped_df(trip)
    return trip, {(r.FeatureA, r.FeatureB): float(r.Score) for r in g.itertuples()}


def direct_scores_ok(trip):
    colv = {c: [r[i] for r in FRAME] for i, c in enumerate(COLS)}

    def codes(v):
        o = sorted(set(v))
        return [o.index(x) for x in v]
    for a, b, s in trip:
        if 'label' in (a, b):
            f, t = (b if a == 'label' else a), 'label'
            cands = [(f, t)]
        else:
            cands = [(a, b), (b, a)]
        ok = False
        for f, t in cands:
            Y, X = codes(colv[f]), codes(colv[t])
            e = KM.c_entropy(Y) if Y == X else KM.c_corrected(Y, X)
            ok = ok or KM.close(float(s), e)
        if not ok:
            return f'({a}, {b}, {s}) is not the corrected score of those two columns'
    return None


def jobs(tier):
    import pandas  # noqa
    PL.real_modules()
    KM.warm()
    b = BOUNDS[tier]
    out = []
    for w in range(1, b['schedule'] + 1):
        for first in range(4):
            for ratio in ((1.0, 0.5) if w <= 2 else (1.0,)):
                out.append({'cond': 'schedule', 'workers': w, 'ratio': ratio, 'pins': {'o0': first}, 'weight': 6 * w ** 4, 'label': f'workers={w},first task={first},sampling ratio={ratio}'})
    for mode, firsts in (('True', range(4)), ('False', range(13))):
        for first in firsts:
            out.append({'cond': 'shuffle', 'mode': mode, 'pins': {'o0': first}, 'weight': 200, 'label': f'target_only={mode},first={first}'})
    out.append({'cond': 'setorder', 'pins': {}, 'weight': 100, 'label': 'focus set fa,fb,fc'})
    for first in range(4):
        out.append({'cond': 'schedule', 'workers': 2, 'ratio': 1.0, 'mode': 'False', 'idframe': 'and', 'pins': {'o0': first}, 'weight': 300, 'label': f'pairwise, columns named like interaction features, pickled closures, first task={first}'})
    for first in range(6):
        out.append({'cond': 'schedule', 'workers': 2, 'ratio': 0.5, 'mode': 'False', 'idframe': True, 'pins': {'o0': first}, 'weight': 300, 'label': f'pairwise with an id-like column, ratio 0.5, pickled closures, first task={first}'})
    if b.get('pairwise-schedule'):
        # pairwise mode (13 tasks): the first two tasks to run and their workers are free, the rest follow in order on worker 0
        for first in range(13):
            out.append({'cond': 'schedule', 'workers': 2, 'ratio': 1.0, 'mode': 'False', 'pins': {'o0': first}, 'weight': 100, 'label': f'pairwise,first task={first}'})
    return out


def run_job(job):
    cond = job['cond']
    cr, cu, tr, ie = PL.real_modules()
    loader.record_functions('outrank/core_ranking.py', ['mixed_rank_graph', 'get_grouped_df', 'compute_batch_ranking'])
    loader.record_functions('outrank/algorithms/importance_estimator.py', ['get_importances_estimate_pairwise', 'generate_data_for_ranking', 'conduct_feature_ranking', 'numba_mi'])
    st = {}
    if cond == 'setorder':
        return run_setorder(job)
    mode = job.get('mode', 'True')
    ratio = job.get('ratio', 1.0)
    idf = job.get('idframe') or False
    fk = dict(frame=FRAMES[idf][0], cols=FRAMES[idf][1]) if idf else {}
    ref_trip, ref_g = rank(cr, SchedPool(list(range(64)), [i for i in range(64)], None, [cr, ie], pickled=True) if idf else PL.SerialPool(), make_args(target_ranking_only=mode, mi_stratified_sampling_ratio=ratio), **fk)
    ntask = len(ref_trip) // 2
    W = job.get('workers', 1)
    st['refB'] = rank(cr, PL.SerialPool(), make_args(target_ranking_only=mode), frame=FRAME_B)[0]

    nfree = ntask if ntask <= 4 else 3      # pairwise mode has 13 tasks: the first 3 picks are free, the tail keeps its order

    def setup(ctx):
        st['o'] = [z3.Int(f'o{i}') for i in range(nfree)]
        for i, v in enumerate(st['o']):
            ctx.assume(v >= 0, v <= ntask - 1 - i)
        st['w'] = [z3.Int(f'w{i}') for i in range(ntask)]
        for i, v in enumerate(st['w']):
            ctx.assume(v >= 0, v < (W if i < nfree else 1))
        if ntask > 4 and cond == 'schedule':
            ctx.assume(st['o'][2] == 0)
        st['unordered'] = z3.Bool('unordered')
        for k, v in job['pins'].items():
            ctx.assume(z3.Int(k) == v)

    def body(ctx, out):
        order = lehmer(st['o'], ntask, lambda v, lo, hi: int(SInt(v, lo, hi)))
        if cond == 'schedule':
            workers = [int(SInt(v, 0, W - 1)) for v in st['w']]
            pool = SchedPool(order, workers, None, [cr, ie], pickled=bool(idf))
            trip, g = rank(cr, pool, make_args(target_ranking_only=mode, mi_stratified_sampling_ratio=ratio), **fk)
            trip2, g2 = rank(cr, SchedPool(order, workers, None, [cr, ie], pickled=bool(idf)), make_args(target_ranking_only=mode, mi_stratified_sampling_ratio=ratio), **fk)
            w = {'cond': cond, 'order': order, 'workers': workers, 'ratio': ratio, 'mode': mode, 'idframe': idf}
            if ratio == 1.0 and not idf:
                # a second mini-batch with other data through the SAME pool (workers persist): its scores must be those of a fresh serial run
                tripB, _ = rank(cr, pool, make_args(target_ranking_only=mode), frame=FRAME_B, fresh=False)
                if sorted(tripB) != sorted(st['refB']):
                    batch2 = f'second mini-batch through the same pool differs from a fresh serial run: {sorted(set(tripB) ^ set(st["refB"]))[:4]}'
                else:
                    batch2 = None
            else:
                batch2 = None
        else:
            def shuf(lst):
                perm = order[:len(lst)] if sorted(order[:len(lst)]) == list(range(len(lst))) else list(range(len(lst)))
                lst[:] = [lst[i] for i in perm]
            trip, g = rank(cr, PL.SerialPool(), make_args(target_ranking_only=mode), shuffle=shuf)
            trip2, g2 = trip, g
            w = {'cond': cond, 'order': order, 'mode': mode}
            batch2 = None
        probs = []
        if batch2:
            probs.append(batch2)
        if sorted(trip) != sorted(ref_trip):
            probs.append(f'triplets differ from the serial run: {sorted(set(trip) ^ set(ref_trip))[:4]}')
        if g != ref_g:
            probs.append('aggregated scores differ from the serial run')
        if sorted(trip2) != sorted(trip):
            probs.append('a second identical call gives different triplets')
        d = direct_scores_ok(trip) if (ratio == 1.0 and not idf) else None
        if d:
            probs.append(d)
        if probs or out.twin:
            out.concrete_fail(w, probs[0] if probs else 'twin')
        else:
            out.concrete_ok()
        out.sample(w)
    return hutil.run_symx(job, setup, body)


# ---- fresh-run reproducibility: iteration order of sets is arbitrary ------------------------------

class SymSet(set):
    ORDER = None     # callable(sorted elements) -> ordered list, installed per path

    def __iter__(self):
        els = sorted(set.__iter__(self), key=repr)
        if SymSet.ORDER is not None and len(els) >= 3 and all(isinstance(e, str) for e in els):
            els = SymSet.ORDER(els)
        return iter(els)

    # sets derived from a set are sets again: their iteration order is just as arbitrary
    def intersection(self, *o):
        return SymSet(set.intersection(self, *o))

    def union(self, *o):
        return SymSet(set.union(self, *o))

    def difference(self, *o):
        return SymSet(set.difference(self, *o))

    def symmetric_difference(self, o):
        return SymSet(set.symmetric_difference(self, o))

    def copy(self):
        return SymSet(set.copy(self))

    def __and__(self, o):
        return SymSet(set.__and__(self, o))

    def __or__(self, o):
        return SymSet(set.__or__(self, o))

    def __sub__(self, o):
        return SymSet(set.__sub__(self, o))

    def __xor__(self, o):
        return SymSet(set.__xor__(self, o))

    __rand__, __ror__ = __and__, __or__

    def __rsub__(self, o):
        return SymSet(set.__rsub__(self, o))


def load_transformed():
    """core_ranking.py from the working tree with every set construction turned into a SymSet"""
    loader.use_repo_on_syspath()
    ns = loader.load('outrank/core_ranking.py', setorder=True, extra={'__symset': SymSet}, modname='outrank_core_ranking_setorder', record=['compute_batch_ranking'])
    return loader.as_module(ns, 'outrank_core_ranking_setorder')


def batch_scores(crm, args):
    for g in (crm.GLOBAL_CARDINALITY_STORAGE, crm.GLOBAL_COUNTS_STORAGE, crm.GLOBAL_RARE_VALUE_STORAGE, crm.GLOBAL_PRIOR_COMB_COUNTS, crm.IGNORED_VALUES):
        g.clear()
    res = crm.compute_batch_ranking([list(r) for r in FRAME], set(), args, PL.SerialPool(), list(COLS), PL.Logger(), PL.PB())
    return {(a, b): float(s) for a, b, s in res[0].triplet_scores}


def run_setorder(job):
    crm = load_transformed()
    st = {}
    args0 = make_args(target_ranking_only='False', feature_set_focus='fa,fb,fc')
    SymSet.ORDER = None
    ref = batch_scores(crm, args0)

    def setup(ctx):
        st['o'] = [z3.Int(f'o{i}') for i in range(4)]
        for i, v in enumerate(st['o']):
            ctx.assume(v >= 0, v <= 3 - i)

    def body(ctx, out):
        used = {}

        def order(els):
            key = tuple(els)
            if key not in used:
                n = len(els)
                if n > 4:
                    return els
                perm = lehmer(st['o'], n, lambda v, lo, hi: int(SInt(v, lo, hi)), bounds=[3, 2, 1, 0])
                used[key] = [els[i] for i in perm]
            return used[key]
        SymSet.ORDER = order
        try:
            got = batch_scores(crm, make_args(target_ranking_only='False', feature_set_focus='fa,fb,fc'))
        finally:
            SymSet.ORDER = None
        w = {'cond': 'setorder', 'orders': {','.join(k): v for k, v in used.items()}}
        diff = sorted(k for k in set(ref) | set(got) if ref.get(k) != got.get(k))
        if diff or out.twin:
            out.concrete_fail(w, f'pair scores depend on set iteration order: {diff[:3]}')
        else:
            out.concrete_ok()
        out.sample(w)
    return hutil.run_symx(job, setup, body)


HASHSEED_SCRIPT = r'''
import sys, json, types
sys.path.insert(0, %(repo)r)
sys.path.insert(0, %(verif)r)
import logging; logging.disable(logging.ERROR)
from harness import C09
from harness import pipeline as PL
cr, cu, tr, ie = PL.real_modules()
for g in (cr.GLOBAL_CARDINALITY_STORAGE, cr.GLOBAL_COUNTS_STORAGE, cr.GLOBAL_RARE_VALUE_STORAGE, cr.GLOBAL_PRIOR_COMB_COUNTS, cr.IGNORED_VALUES): g.clear()
res = cr.compute_batch_ranking([list(r) for r in C09.FRAME], set(), C09.make_args(target_ranking_only='False', feature_set_focus='fa,fb,fc'), PL.SerialPool(), list(C09.COLS), PL.Logger(), PL.PB())
print(json.dumps(sorted([a, b, float(s)] for a, b, s in res[0].triplet_scores)))
'''


class ChunkedRealPool:
    """the real pathos pool with the chunk size of its map calls chosen by the replay instead of pathos' default ceil(n / (4 * nodes)):
    how many tasks travel together (and share one unpickled copy of the mapped closure) is a scheduling choice of the pool"""

    def __init__(self, real, chunksize):
        self.real, self.chunksize = real, chunksize
        self.ncpus = self.nodes = real.ncpus

    def __enter__(self):
        return self

    def __exit__(self, *a):
        return False

    def amap(self, f, items):
        items = list(items)
        return self.real.amap(f, items, chunksize=max(1, min(self.chunksize, len(items))))


def replay_real_pool(cr, w):
    """the real pathos process pool at several sizes (its chunking of the task list depends on the size) and task orders"""
    from pathos.multiprocessing import ProcessingPool
    import time as _t
    outs = {}
    real_sleep = _t.sleep
    for nodes in (1, 2, 3, 6):
        for oname, perm in [('given order', None), ('witness order', w['order']), ('rotated order', 'rot'), ('reversed order', 'rev')] + ([(f'shuffle #{k}', ('rnd', k)) for k in range(3)] + [('given order, one task per chunk', ('chunk', 1)), ('given order, all tasks in one chunk', ('chunk', 10 ** 6))] if nodes <= 2 else []):
            def shuf(lst, perm=perm):
                if isinstance(perm, tuple) and perm[0] == 'rnd':
                    random.Random(perm[1]).shuffle(lst)
                elif isinstance(perm, tuple):
                    pass
                elif perm == 'rot':
                    lst[:] = lst[1:] + lst[:1]
                elif perm == 'rev':
                    lst.reverse()
                elif perm is not None and sorted(perm[:len(lst)]) == list(range(len(lst))):
                    lst[:] = [lst[i] for i in perm[:len(lst)]]
            pool = ProcessingPool(nodes)
            if isinstance(perm, tuple) and perm[0] == 'chunk':
                pool_used = ChunkedRealPool(pool, perm[1])
            else:
                pool_used = pool
            try:
                cr.time.sleep = lambda s: real_sleep(0.05)
                trip, g = rank(cr, pool_used, make_args(target_ranking_only=w.get('mode', 'True'), mi_stratified_sampling_ratio=w.get('ratio', 1.0)), shuffle=shuf, frame=FRAMES[w['idframe']][0], cols=FRAMES[w['idframe']][1])
            finally:
                cr.time.sleep = real_sleep
                pool.close()
                pool.join()
                pool.clear()
            outs[(nodes, oname)] = g
    keys = sorted(outs)
    for k in keys[1:]:
        if outs[k] != outs[keys[0]]:
            d = sorted(p for p in outs[k] if outs[k][p] != outs[keys[0]].get(p))[:3]
            return {'reproduced': True, 'signature': 'C09:pool-size-dependent-scores', 'what': f'real pathos pool, columns {FRAMES[w["idframe"]][1]}, sampling ratio {w.get("ratio")}, pairwise: {keys[0][0]} worker(s), {keys[0][1]} and {k[0]} worker(s), {k[1]} give different scores for {d}: {[outs[keys[0]].get(p) for p in d]} vs {[outs[k][p] for p in d]}'}
    return {'reproduced': False, 'what': 'identical scores for real pools of 1, 2, 3 and 6 workers and four to ten task orders'}


def replay(w):
    cr, cu, tr, ie = PL.real_modules()
    if w['cond'] == 'setorder':
        outs = {}
        for seed in range(0, 12):
            env = dict(os.environ, PYTHONHASHSEED=str(seed))
            p = subprocess.run([sys.executable, '-c', HASHSEED_SCRIPT % dict(repo=loader.REPO, verif=os.path.dirname(os.path.dirname(os.path.abspath(__file__))))], capture_output=True, text=True, env=env, timeout=600)
            if p.returncode != 0:
                return {'reproduced': False, 'error': p.stderr[-500:]}
            outs[seed] = p.stdout.strip().splitlines()[-1]
        distinct = sorted(set(outs.values()))
        if len(distinct) > 1:
            a, b = json.loads(distinct[0]), json.loads(distinct[1])
            d = [x for x in a if x not in b][:2]
            s1 = [s for s, o in outs.items() if o == distinct[0]][0]
            s2 = [s for s, o in outs.items() if o == distinct[1]][0]
            return {'reproduced': True, 'signature': 'C09:focus-set-column-order', 'what': f'--feature_set_focus fa,fb,fc, pairwise, MI-numba-randomized: PYTHONHASHSEED={s1} and PYTHONHASHSEED={s2} give different pair scores, e.g. {d} (column order of the focused frame comes from set iteration order)'}
        return {'reproduced': False, 'what': 'identical scores under PYTHONHASHSEED 0..11'}
    ratio = w.get('ratio', 1.0)
    if w.get('idframe'):
        return replay_real_pool(cr, w)
    ref_trip, ref_g = rank(cr, PL.SerialPool(), make_args(target_ranking_only=w.get('mode', 'True'), mi_stratified_sampling_ratio=ratio))
    probs = []
    if w['cond'] == 'schedule':
        pool = SchedPool(w['order'], w['workers'], None, [cr, ie])
        trip, g = rank(cr, pool, make_args(target_ranking_only=w.get('mode', 'True'), mi_stratified_sampling_ratio=ratio))
        if ratio == 1.0:
            refB = rank(cr, PL.SerialPool(), make_args(), frame=FRAME_B)[0]
            pool = SchedPool(w['order'], w['workers'], None, [cr, ie])
            rank(cr, pool, make_args())
            tripB, _ = rank(cr, pool, make_args(), frame=FRAME_B, fresh=False)
            if sorted(tripB) != sorted(refB):
                probs.append(f'second mini-batch through the same pool differs from a fresh serial run: {sorted(set(tripB) ^ set(refB))[:4]}')
    else:
        def shuf(lst):
            perm = w['order'][:len(lst)] if sorted(w['order'][:len(lst)]) == list(range(len(lst))) else list(range(len(lst)))
            lst[:] = [lst[i] for i in perm]
        trip, g = rank(cr, PL.SerialPool(), make_args(target_ranking_only=w.get('mode', 'True')), shuffle=shuf)
    if sorted(trip) != sorted(ref_trip) or g != ref_g:
        probs.append(f'result differs from the serial run: {sorted(set(trip) ^ set(ref_trip))[:4]}')
    d = direct_scores_ok(trip) if ratio == 1.0 else None
    if d:
        probs.append(d)
    if probs:
        return {'reproduced': True, 'signature': f'C09:{w["cond"]}', 'what': f'{w["cond"]} {w}: ' + '; '.join(probs)}
    return {'reproduced': False, 'what': 'schedule-independent'}
