"""shared by the CrossHair harness modules: the real core_ranking / core_utils source loaded with the list-backed pandas
stand-in, an injective hash stub and a list-backed set"""
from __future__ import annotations

import os
import sys
import types

sys.path.insert(0, os.path.dirname(os.path.dirname(os.path.abspath(__file__))))
from vlib import chsupport, loader, sympd  # noqa: E402


class _H:
    def __init__(self, x):
        self.x = x

    def hexdigest(self):
        return self.x          # injective stand-in: collisions of the 64/32-bit hash are outside the claims

    def intdigest(self):
        return self.x


def xx_stub():
    xx = types.ModuleType('xxhash')
    xx.xxh64 = lambda x, seed=0: _H(x)
    xx.xxh32 = lambda x=None, seed=0: _H(x)
    return xx


_CU = None
_CR = None


def core_utils():
    global _CU
    if _CU is None:
        ns = loader.load('outrank/core_utils.py', shims={'pandas': sympd, 'xxhash': xx_stub()}, modname='outrank_core_utils_ch',
                         record=['parse_ob_line', 'parse_ob_line_vw', 'parse_ob_csv_line', 'generic_line_parser', 'parse_namespace', 'internal_hash'])
        _CU = ns
    return _CU


def core_ranking():
    global _CR
    if _CR is None:
        cu = loader.as_module(core_utils(), 'outrank.core_utils')
        stubs = {'pandas': sympd, 'xxhash': xx_stub(), 'tqdm': loader.tqdm_stub(), 'outrank.core_utils': cu,
                 'outrank.algorithms.importance_estimator': types.SimpleNamespace(get_importances_estimate_pairwise=None),
                 'outrank.feature_transformations.ranking_transformers': types.SimpleNamespace(FeatureTransformerGeneric=None, FeatureTransformerNoise=None)}
        stubs = {k: (v if isinstance(v, types.ModuleType) else _mod(k, v)) for k, v in stubs.items()}
        ns = loader.load('outrank/core_ranking.py', shims=stubs, modname='outrank_core_ranking_ch',
                         record=['compute_combined_features', 'compute_expanded_multivalue_features', 'compute_subfeatures', 'prior_combinations_sample'])
        ns['set'] = chsupport.PySet
        _CR = ns
    return _CR


def _mod(name, ns):
    m = types.ModuleType(name)
    m.__dict__.update(vars(ns))
    return m
