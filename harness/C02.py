"""C02 - scores depend on co-occurrence structure only; self-pair shortcut only for identical vectors (symx)."""
from __future__ import annotations

import z3

from harness import kernel as KM
from vlib import hutil, symx, xnp
from vlib.symx import SInt, SReal

ID = 'C02'

MANIFEST = {
    'engine': 'symx',
    'text': 'Bounded symbolic model checking of the real kernel source with symbolic vectors AND a symbolic injective relabelling map of one side at a time (both-side invariance follows by composing the two): z3 shows f(Y, g(X), c) == f(Y, X, c) and f(h(Y), X, c) == f(Y, X, c) for c in {False, True}; a second obligation shows that with correction on the result is the corrected formula whenever the vectors differ somewhere and the entropy exactly when they are identical (so equal code sums alone never trigger the shortcut). The relabelling obligations are also run with sparse target codes {0, 3, 1000, 70000, 2^20-2, 2^20-1} on one side and on both sides (offsets and gaps far larger than the vector length, adjacent huge codes). Condition coding drives the real mixed_rank_graph (category coding of batch columns, real pandas) with the number of categories (both sides of the int8/int16/int32 code-width borders of pandas), the sort order of the category names and the heuristic chosen by the solver, and compares every emitted score with the compiled estimator on an independent injective coding of the same column.',
    'note': 'Exact reals (float32 rounding outside); numba/numpy stand-ins; bounds n<=3 with codes<3 mapped into <4 for the relabelling obligations, n<=4 codes<3 (thorough n<=5) for the shortcut obligation; counterexamples are replayed on the compiled kernel.',
    'technique': 'symbolic execution of the real Python source with z3; relabelling map = K symbolic ints under Distinct',
}

BOUNDS = {
    'quick': {'relabel-X': [(2, 2, 4), (3, 2, 3)], 'relabel-Y': [(2, 2, 4), (3, 2, 3)], 'shortcut': [(2, 3), (3, 3), (4, 2)]},
    'thorough': {'relabel-X': [(2, 3, 4), (3, 3, 4), (4, 2, 3), (4, 3, 4), (5, 2, 3)], 'relabel-Y': [(2, 3, 4), (3, 3, 4), (4, 2, 3), (4, 3, 4), (5, 2, 3)], 'shortcut': [(3, 3), (4, 3), (5, 2), (4, 4), (5, 3), (6, 2)]},
}

INFO = {
    'engine': 'symx + z3',
    'explanation': 'Vectors and an injective relabelling map are symbolic; the real estimator runs on the original and the relabelled pair; per path z3 decides whether the two results can differ. '
                   'Shortcut obligation: result(c=True) == (entropy if identical else H(Y*|X)-H(Y|X)).',
    'bounds': {t: {c: [str(x) for x in v] for c, v in b.items()} for t, b in BOUNDS.items()},
    'outside': ['float32 rounding', 'larger n / codes', 'category coding: cardinalities other than the listed ones (two per code-width regime of pandas, at its borders)'],
    'assumptions': ['numba stub, xnp stand-in, exact division / if-conversion transforms (see C01)',
                    'one side relabelled at a time; both-side invariance follows by composition at the larger code bound'],
    'job_timeout': {'quick': 240, 'thorough': 2400},
}


# category coding of batch columns (core_ranking.py:108-114): pandas chooses the code width by the number of categories (int8 up to
# 127, int16 up to 32767, int32 beyond), so the coding step has three regimes; one or two cardinalities per regime, at the borders
CARD = {'quick': [3, 127, 128, 200, 32767, 32768, 33000, 66000], 'thorough': [3, 127, 128, 129, 200, 32767, 32768, 32769, 40000, 66000]}
RENAMES = ['ascending', 'descending', 'scrambled', 'numeric-spellings']
CODING_HEUR = ['MI-numba-randomized', 'MI-numba-3mr']
for _t in CARD:
    INFO['bounds'][_t]['coding'] = [f'{k} categories x names in {RENAMES} order x {CODING_HEUR if k <= 200 else CODING_HEUR[:1]}' for k in CARD[_t]]


HEAVY_RANKS = (5, 133, 261, 32773, 65541)      # sort ranks 2^7, 2^8, 2^15 and 2^16 apart: codes that a too narrow integer would identify


def coding_frame(K, rename):
    """About 2K rows: column hi takes K distinct values; a few heavy categories - chosen by the SORT RANK of their name, i.e. by the
    code pandas gives them - carry different label distributions, so the score moves if any two of them are identified. The names
    are assigned in ascending / descending / scrambled order of the ids, or are numeric-looking texts of which neighbouring pairs
    denote the same number ('7' / '07'): different categories all the same."""
    if rename == 'numeric-spellings':
        names = [(str(i // 2) if i % 2 == 0 else '0' + str(i // 2)) for i in range(K)]
        heavy = list(range(min(K, 4)))
    else:
        step = next(p for p in (7919, 104729, 1299709) if K % p and p % K)
        rank = {'ascending': lambda i: i, 'descending': lambda i: K - 1 - i, 'scrambled': lambda i: (i * step + 11) % K}[rename]
        inv = {rank(i): i for i in range(K)}
        assert len(inv) == K
        names = [f'v{rank(i):07d}' for i in range(K)]
        heavy = [inv[r] for r in sorted({r % K for r in HEAVY_RANKS})]
    assert len(set(names)) == K
    H = len(heavy)
    E = max(60, K // H) * H          # the heavy categories carry about half of the rows
    ids = list(range(K)) + [heavy[j % H] for j in range(E)]
    lab = [str(i % 2) for i in range(K)] + [('1' if (j // H) % (H + 1) <= j % H else '0') for j in range(E)]
    return ids, [names[i] for i in ids], lab, heavy


def first_codes(v):
    seen = {}
    return [seen.setdefault(x, len(seen)) for x in v]


def coding_probs(K, rename, heur):
    from harness import C05
    ids, hi, lab, heavy = coding_frame(K, rename)
    cols = ['hi', 'label']
    frame = [[a, b] for a, b in zip(hi, lab)]
    trip, calls, warn = C05.drive(cols, frame, 'label', heur, True)
    corr = heur == 'MI-numba-randomized'
    exp = KM.real_mi(first_codes(ids), first_codes(lab), 1.0, corr)
    if len(heavy) > 1:      # the frame must be able to tell: identifying two heavy categories moves the reference score
        merged = KM.real_mi(first_codes([heavy[0] if v == heavy[-1] else v for v in ids]), first_codes(lab), 1.0, corr)
        if abs(merged - exp) < 1e-3:
            raise symx.HarnessError(f'coding frame for {K} categories is not sensitive to identified categories ({exp} vs {merged})')
    got = [s for a, b, s in trip if {a, b} == {'hi', 'label'}]
    if not got:
        return [f'no (hi, label) score emitted'], None
    bad = [s for s in got if not KM.close(float(s), exp, 1e-5)]
    if bad:
        return [f'{heur}, {K} categories named in {rename} order: the batch scores (hi, label) = {bad[0]:.6f}, the estimator on an injective coding of the same column gives {exp:.6f}'], (bad[0], exp)
    return [], (got[0], exp)


SPARSE = [0, 3, 1000, 70000, 2 ** 20 - 2, 2 ** 20 - 1]      # sparse recodings: gaps far larger than the vector length, and two adjacent codes at the top of the range


def jobs(tier):
    KM.warm()
    KM.kernel()
    out = []
    for cond in ('relabel-X', 'relabel-Y', 'relabel-both'):
        for x0 in range(2):
            for c in (False, True):
                out.append({'cond': cond, 'n': 2 if cond == 'relabel-both' else 3, 'K': 2, 'K2': 4, 'corr': c, 'pins': {'x0': x0}, 'sparse': True, 'weight': 200,
                            'label': f'sparse recoding into {SPARSE},x0={x0},corr={c}'})
    for ki in range(len(CARD[tier])):
        for pins in ([{'card': ki, 'rename': r} for r in range(len(RENAMES) - 1)] if CARD[tier][ki] > 1000 else [{'card': ki}]):
            out.append({'cond': 'coding', 'n': 0, 'K': CARD[tier][ki], 'K2': 0, 'corr': True, 'tier': tier, 'pins': pins, 'weight': 6, 'label': f'{CARD[tier][ki]} categories {pins}'})
    for cond, lst in BOUNDS[tier].items():
        for b in lst:
            n, K = b[0], b[1]
            pl = min(n, 2)
            for pins in hutil.product_pins([(f'x{i}', range(K)) for i in range(pl)]):
                for c in ((False, True) if cond != 'shortcut' else (True,)):
                    out.append({'cond': cond, 'n': n, 'K': K, 'K2': b[2] if len(b) > 2 else K, 'corr': c, 'pins': pins,
                                'weight': K ** (n - pl) * (b[2] ** K if len(b) > 2 else 1), 'label': f'{b},{pins},corr={c}'})
    return out


def run_coding(job):
    cards = CARD[job['tier']]
    st = {}

    def setup(ctx):
        st['card'], st['ren'], st['h'] = z3.Int('card'), z3.Int('rename'), z3.Int('h')
        ctx.assume(st['card'] >= 0, st['card'] < len(cards), st['ren'] >= 0, st['ren'] < len(RENAMES), st['h'] >= 0, st['h'] < len(CODING_HEUR))
        # MI-numba-3mr scores the column against itself as well, which is quadratic in the number of categories: small cardinalities only
        ctx.assume(z3.Or(st['h'] == 0, z3.Or([st['card'] == i for i, k in enumerate(cards) if k <= 200])))
        ctx.assume(z3.Or(st['ren'] != RENAMES.index('numeric-spellings'), z3.Or([st['card'] == i for i, k in enumerate(cards) if k <= 200])))
        for k, v in job['pins'].items():
            ctx.assume(z3.Int(k) == v)

    def body(ctx, out):
        K = cards[int(SInt(st['card'], 0, len(cards) - 1))]
        ren = RENAMES[int(SInt(st['ren'], 0, len(RENAMES) - 1))]
        heur = CODING_HEUR[int(SInt(st['h'], 0, len(CODING_HEUR) - 1))]
        w = {'cond': 'coding', 'K': K, 'rename': ren, 'heur': heur, 'corr': heur == 'MI-numba-randomized'}
        try:
            probs, vals = coding_probs(K, ren, heur)
        except Exception as e:
            probs, vals = [f'{type(e).__name__}: {e}'], None
        if probs or out.twin:
            out.concrete_fail(w, probs[0] if probs else 'twin')
        else:
            out.concrete_ok()
        out.sample({'categories': K, 'names': ren, 'heuristic': heur, 'score': vals and vals[0]})
    return hutil.run_symx(job, setup, body)


def run_job(job):
    if job['cond'] == 'coding':
        return run_coding(job)
    n, K, K2, cond, corr = job['n'], job['K'], job['K2'], job['cond'], job['corr']
    sparse = bool(job.get('sparse'))
    f = KM.kernel()['mutual_info_estimator_numba']
    st = {}

    def setup(ctx):
        st['X'], st['Y'] = KM.declare_vectors(ctx, n, K, job['pins'])
        if cond.startswith('relabel'):
            g = [z3.Int(f'g{i}') for i in range(K)]
            for v in g:
                if sparse:
                    ctx.assume(z3.Or([v == c for c in SPARSE]))
                else:
                    ctx.assume(v >= 0, v < K2)
            ctx.assume(z3.Distinct(*g))
            st['g'] = g
            if cond == 'relabel-both':
                h = [z3.Int(f'h{i}') for i in range(K)]
                for v in h:
                    ctx.assume(z3.Or([v == c for c in SPARSE]))
                ctx.assume(z3.Distinct(*h))
                st['h'] = h
        else:
            st['HY'] = KM.ref_entropy(st['Y'], n, K)
            st['corr'] = KM.ref_corrected(st['X'], st['Y'], n, K)

    def mapped(vec, key='g'):
        out = []
        for e in vec:
            t = st[key][K - 1]
            for k in range(K - 2, -1, -1):
                t = z3.If(e == k, st[key][k], t)
            out.append(SInt(t, 0, max(SPARSE), SPARSE) if sparse else SInt(t, 0, K2 - 1))
        return xnp.Arr(out, 'int32')

    def wit(m):
        w = {'cond': cond, 'corr': corr, 'Y': [m.eval(v, model_completion=True).as_long() for v in st['Y']],
             'X': [m.eval(v, model_completion=True).as_long() for v in st['X']]}
        if 'g' in st:
            w['map'] = [m.eval(v, model_completion=True).as_long() for v in st['g']]
        if 'h' in st:
            w['map_y'] = [m.eval(v, model_completion=True).as_long() for v in st['h']]
        return w

    def body(ctx, out):
        Xa, Ya = KM.arrs(st['X'], st['Y'], K)
        got = SReal.of(f(Ya, Xa, 1.0, corr))
        if cond.startswith('relabel'):
            # The statement prescribes the entropy for element-wise identical vectors and the corrected formula otherwise, so with
            # correction on the invariance obligation is restricted to maps that preserve "identical / not identical".
            X2 = mapped(st['X']) if cond in ('relabel-X', 'relabel-both') else KM.arrs(st['X'], st['Y'], K)[0]
            Y2 = mapped(st['Y'], 'h' if cond == 'relabel-both' else 'g') if cond in ('relabel-Y', 'relabel-both') else KM.arrs(st['X'], st['Y'], K)[1]
            same1 = z3.And([st['X'][i] == st['Y'][i] for i in range(n)])
            same2 = z3.And([symx.zint(X2.data[i]) == symx.zint(Y2.data[i]) for i in range(n)])
            got2 = SReal.of(f(Y2, X2, 1.0, corr))
            pre = (same1 == same2) if corr else z3.BoolVal(True)
            out.never(ctx, z3.And(pre, got.z != got2.z), wit, f'score changes under an injective relabelling ({cond})')
        else:
            same = z3.And([st['X'][i] == st['Y'][i] for i in range(n)])
            out.never(ctx, got.z != z3.If(same, st['HY'], st['corr']), wit, 'corrected score != (entropy if identical else H(Y*|X)-H(Y|X))')
        if not out.twin and out.validated < 40 and ctx.check() == 'sat':
            m = ctx.model()
            w = wit(m)
            sym, real = KM.numeric(got.z, m), KM.real_mi(w['Y'], w['X'], 1.0, corr)
            out.validated += 1
            if real != real or real in (float('inf'), float('-inf')):
                out.candidates.append({'witness': dict(w, label='non-finite score on the compiled kernel')})
            elif not KM.close(sym, real):
                out.error = f'stand-in disagrees with the compiled kernel on {w}: {sym} vs {real}'
            out.sample({'Y': w['Y'], 'X': w['X'], 'corr': corr, 'score': real})
    return hutil.run_symx(job, setup, body, wit=wit)


def classify(Y, X):
    if Y != X and sum(X) == sum(Y):
        return 'C02:selfpair-by-sum'
    return None


def replay(w):
    try:
        return _replay(w)
    except Exception as e:  # the real build raised
        return {'reproduced': True, 'signature': f'C02:raises-{type(e).__name__}', 'what': f'the real estimator raises {type(e).__name__}: {str(e)[:200]} on {({k: v for k, v in w.items() if k in ("Y", "X", "r", "corr", "Y2", "map")})}'}


def _replay(w):
    if w['cond'] == 'coding':
        try:
            probs, vals = coding_probs(w['K'], w['rename'], w['heur'])
        except symx.HarnessError as e:
            return {'reproduced': False, 'what': f'not decidable on this build: {e}'}
        if probs:
            return {'reproduced': True, 'signature': 'C02:batch-coding', 'what': probs[0]}
        return {'reproduced': False, 'what': f'batch score equals the estimator on an injective coding: {vals}'}
    Y, X, corr = w['Y'], w['X'], w['corr']
    got = KM.real_mi(Y, X, 1.0, corr)
    if w['cond'].startswith('relabel'):
        g = w['map']
        X2 = [g[v] for v in X] if w['cond'] in ('relabel-X', 'relabel-both') else X
        Y2 = [(w.get('map_y') or g)[v] for v in Y] if w['cond'] in ('relabel-Y', 'relabel-both') else Y
        got2 = KM.real_mi(Y2, X2, 1.0, corr)
        if corr and (X == Y) != (X2 == Y2):
            return {'reproduced': False, 'what': 'map does not preserve identical/non-identical (outside the obligation)'}
        if not KM.close(got, got2):
            sig = (corr and (classify(Y, X) or classify(Y2, X2))) or 'C02:relabel'
            return {'reproduced': True, 'signature': sig, 'what': f'f(Y={Y}, X={X}, corr={corr}) = {got:.6f} but relabelled f(Y={Y2}, X={X2}) = {got2:.6f}',
                    'detail': {'got': got, 'relabelled': got2}}
        return {'reproduced': False, 'what': f'{got} == {got2}'}
    exp = KM.c_entropy(Y) if X == Y else KM.c_corrected(Y, X)
    if not KM.close(got, exp):
        sig = classify(Y, X) if (classify(Y, X) and KM.close(got, KM.c_mi(Y, X))) else 'C02:corrected-formula'
        return {'reproduced': True, 'signature': sig, 'what': f'f(Y={Y}, X={X}, corr=True) = {got:.6f}, expected {exp:.6f} ({"entropy" if X == Y else "H(Y*|X)-H(Y|X)"})',
                'detail': {'got': got, 'expected': exp}}
    return {'reproduced': False, 'what': f'{got} == {exp}'}
