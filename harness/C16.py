"""C16 - line parsers keep every field in its column and never mis-align (CrossHair on the real source with symbolic strings)."""
from __future__ import annotations

from vlib import chharness, loader

ID = 'C16'

MANIFEST = {
    'engine': 'crosshair',
    'text': 'CrossHair (symbolic execution with z3, symbolic strings) of the real generic_line_parser / parse_ob_line / parse_ob_csv_line / parse_ob_line_vw / parse_namespace source: cells, VW tokens, labels and namespace-map entries are symbolic strings; a well-formed line is rendered from them (TSV by joining with tabs, CSV through csv.writer, VW by the namespace syntax) and for every value within the bound CrossHair must confirm over all paths that the parser returns exactly the cells in order (empty and blank cells at the edges, quotes and delimiters inside CSV cells, unicode blanks), that VW tokens land joined by "-" without their two-character prefix in the column of their namespace with absent namespaces as None and the label from the first token, that a row with a wrong number of fields is never taken for a well-formed one, and that the namespace map yields the declared id->feature mapping and float set. Counterexamples are replayed on the real module. A history of two namespace maps with the same header (ids reassigned) is explored as well.',
    'note': 'Per condition <= 4 symbolic characters over alphabets of <= 5 letters; csv is a C module: symbolic strings are realised at that boundary (CrossHair then enumerates the models; still exhaustive for these alphabets); "two-character prefix" is read as the first two characters of the joined value (what the code does); 2-field namespace lines whose id contains "_" are outside the assumed format.',
    'technique': 'CrossHair symbolic execution of the real Python source (z3 string theory), per condition "Confirmed over all paths" or a replayed counterexample',
}

CONDS = ['tsv_first_last', 'tsv_middle', 'tsv_three_small', 'tsv_wrong_count', 'csv_roundtrip', 'csv_wrong_count', 'vw_two_tokens', 'vw_absent_and_label', 'vw_namespace_order', 'vw_two_maps', 'vw_empty_namespace', 'namespace_feature', 'namespace_id']
INFO = {
    'engine': 'crosshair-tool 0.0.110 + z3',
    'explanation': 'see level text',
    'bounds': {'quick': {c: 'see precondition in harness/ch_c16.py' for c in CONDS}, 'thorough': {c: 'same conditions with one more symbolic character per string, longer per-condition budget' for c in CONDS}},
    'outside': ['cells containing line breaks (excluded by the statement)', 'longer cells / more columns', 'the field-count test of the streaming loop itself (C08 drives it with malformed lines)'],
    'assumptions': ['open() replaced by a list-of-lines stub for the namespace map', 'SequenceConcatenation.__eq__ of crosshair 0.0.110 patched; sequences compared element-wise'],
    'job_timeout': {'quick': 500, 'thorough': 1800},
    'max_replays': 12, 'max_replays_per_cond': 2,
}
jobs, run_job = chharness.make('harness.ch_c16', CONDS, {'quick': 150, 'thorough': 700},
                               [('outrank/core_utils.py', ['parse_ob_line', 'parse_ob_line_vw', 'parse_ob_csv_line', 'generic_line_parser', 'parse_namespace'])])


def replay(w):
    """the condition function evaluated concretely with the REAL outrank.core_utils module in place of the loaded source"""
    loader.use_repo_on_syspath()
    import outrank.core_utils as real
    from harness import ch_c16
    ch_c16.CU = real.__dict__
    args, kw = chharness.call_args(w)
    try:
        ok = getattr(ch_c16, w['fn'])(*args, **kw)
    except Exception as e:
        return {'reproduced': True, 'signature': f'C16:{w["fn"]}:exception:{type(e).__name__}', 'what': f'{w["fn"]}{tuple(args)}: {type(e).__name__}: {e}'}
    if not ok:
        fam = w['fn'].split('_')[0]
        edge = fam == 'tsv' and any(isinstance(a, str) and a.strip() == '' for a in args)
        sig = 'C16:tsv-edge-cells-stripped' if edge else f'C16:{w["fn"]}'
        return {'reproduced': True, 'signature': sig, 'what': f'{w["fn"]}{tuple(args)}: the parsed row differs from the cells the line was rendered from' + (' (empty/blank cell at the edge of a tab-separated row is eaten by strip())' if edge else '')}
    return {'reproduced': False, 'what': 'parsed as rendered'}

