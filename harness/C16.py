"""C16 - line parsers keep every field in its column and never mis-align (CrossHair on the real source with symbolic strings)."""
from __future__ import annotations

from vlib import chharness, loader

ID = 'C16'

MANIFEST = {
    'engine': 'crosshair',
    'text': 'CrossHair (symbolic execution with z3, symbolic strings) of the real generic_line_parser / parse_ob_line / parse_ob_csv_line / parse_ob_line_vw / parse_namespace source: cells, VW tokens, labels and namespace-map entries are symbolic strings; a well-formed line is rendered from them (TSV by joining with tabs, CSV through csv.writer, VW by the namespace syntax) and for every value within the bound CrossHair must confirm over all paths that the parser returns exactly the cells in order (empty and blank cells at the edges, quotes and delimiters inside CSV cells, unicode blanks), that VW tokens land joined by "-" without their two-character prefix in the column of their namespace with absent namespaces as None and the label from the first token, that a row with a wrong number of fields is never taken for a well-formed one, and that the namespace map yields the declared id->feature mapping and float set. Counterexamples are replayed on the real module. A history of two namespace maps with the same header (ids reassigned) is explored as well. Three solver-driven conditions run the real code on concrete pools: loop_tsv (well-formed tab-separated rows, incl. cells starting with a double quote, through the real streaming loop) and vw_tokens (tokens containing no-break / ideographic spaces, tabs, colons through the real VW parser).',
    'note': 'Per condition <= 4 symbolic characters over alphabets of <= 5 letters; csv is a C module: symbolic strings are realised at that boundary (CrossHair then enumerates the models; still exhaustive for these alphabets); "two-character prefix" is read as the first two characters of the joined value (what the code does); 2-field namespace lines whose id contains "_" are outside the assumed format.',
    'technique': 'CrossHair symbolic execution of the real Python source (z3 string theory), per condition "Confirmed over all paths" or a replayed counterexample',
}

CONDS = ['tsv_first_last', 'tsv_middle', 'tsv_three_small', 'tsv_wrong_count', 'csv_roundtrip', 'csv_wrong_count', 'vw_two_tokens', 'vw_absent_and_label', 'vw_namespace_order', 'vw_two_maps', 'vw_empty_namespace', 'namespace_feature', 'namespace_id']
INFO = {
    'engine': 'crosshair-tool 0.0.110 + z3',
    'explanation': 'see level text',
    'bounds': {'quick': dict({c: 'see precondition in harness/ch_c16.py' for c in CONDS}, vw_tokens='one or two tokens of a namespace from 8 texts containing NBSP, narrow NBSP, ideographic space, tab, colon', loop_tsv='2 rows x 3 tab-separated cells (first row from {empty, blank, a, ", "a}, second from {empty, blank, a}) through the real streaming loop'), 'thorough': dict({c: 'same conditions with one more symbolic character per string, longer per-condition budget' for c in CONDS}, loop_tsv='as quick', vw_tokens='as quick')},
    'outside': ['cells containing line breaks (excluded by the statement)', 'longer cells / more columns', 'the field-count test of the streaming loop on malformed lines (C08 drives it); here it is driven with well-formed tab-separated rows only'],
    'assumptions': ['open() replaced by a list-of-lines stub for the namespace map', 'SequenceConcatenation.__eq__ of crosshair 0.0.110 patched; sequences compared element-wise'],
    'job_timeout': {'quick': 500, 'thorough': 1800},
    'max_replays': 12, 'max_replays_per_cond': 2,
}
_ch_jobs, _ch_run = chharness.make('harness.ch_c16', CONDS, {'quick': 150, 'thorough': 700},
                               [('outrank/core_utils.py', ['parse_ob_line', 'parse_ob_line_vw', 'parse_ob_csv_line', 'generic_line_parser', 'parse_namespace'])])


# ---- the field-count test of the streaming loop on WELL-FORMED tab-separated rows (cells empty / blank anywhere) ----
LOOP_POOL = ['', ' ', 'a', '"', '"a']      # tab-separated text has no quoting layer: a cell may start with a double quote
LOOP_ROWS = 2


def loop_problem(table):
    from harness import C08
    from harness import pipeline as PL
    cr, cu, tr, ie = PL.real_modules()
    lines = ['\t'.join(C08.COLS) + '\n'] + ['\t'.join(r) + '\n' for r in table]
    rec = C08.drive_loop(cr, cu, lines, 1, 1, data_source='ob-raw-dump', delimiter='\t')
    got = [b[0] for b in rec['batches'] if b]
    if got != [list(r) for r in table]:
        return f'rows handed to the ranking {got} vs the rows of the file {[list(r) for r in table]}'
    inv = [m for m in rec['log'] if 'invalid' in str(m).lower()]
    return None


def run_loop(job):
    import z3
    from vlib import hutil
    from vlib.symx import SInt
    loader.record_functions('outrank/core_ranking.py', ['estimate_importances_minibatches'])
    loader.record_functions('outrank/core_utils.py', ['generic_line_parser', 'parse_ob_line'])
    st = {}
    NC = 3 * LOOP_ROWS

    def setup(ctx):
        st['c'] = [z3.Int(f'c{i}') for i in range(NC)]
        for i, v in enumerate(st['c']):
            ctx.assume(v >= 0, v < (len(LOOP_POOL) if i < 3 else 3))      # the quote cells in the first row only
        for k, v in job['pins'].items():
            ctx.assume(z3.Int(k) == v)

    def body(ctx, out):
        cells = [LOOP_POOL[int(SInt(v, 0, len(LOOP_POOL) - 1))] for v in st['c']]
        table = [cells[i * 3:(i + 1) * 3] for i in range(LOOP_ROWS)]
        w = {'cond': 'loop_tsv', 'fn': 'loop_tsv', 'table': table}
        try:
            p = loop_problem(table)
        except Exception as e:
            p = f'{type(e).__name__}: {e}'
        if p or out.twin:
            out.concrete_fail(w, p or 'twin')
        else:
            out.concrete_ok()
        out.sample(w)
    return hutil.run_symx(job, setup, body)


# ---- VW tokens with characters that only LOOK like separators: the real parser on solver-chosen tokens -----------------------------
VW_TOKENS = ['a_x', 'a_New\u00a0York', 'a_1\u202f000', 'a_\u3000', 'a_p\tq', 'a_-', 'a_|'[:2] + 'b', 'a_x:1']
VW_HDR = ['label', 'f1', 'f2']
VW_FW = {'A': 'f1', 'B': 'f2'}


VW_EXTRA = ['', '|ZZ zz_q ', '| ']      # nothing / a section of a namespace the map does not declare / an empty section, before namespace B


def vw_problem(t1, t2, two, extra=0):
    """'1 |A t1 [t2] |B b_y': the tokens of namespace A land, joined by '-' and without the two-character prefix, in column f1"""
    import types as _t
    loader.use_repo_on_syspath()
    import outrank.core_utils as cu
    toks = [t1, t2] if two else [t1]
    line = '1 |A ' + ' '.join(toks) + ' ' + VW_EXTRA[extra] + '|B b_y\n'
    got = cu.generic_line_parser(line, None, _t.SimpleNamespace(data_source='ob-vw'), dict(VW_FW), list(VW_HDR))
    exp = ['1', '-'.join(toks)[2:], 'y']
    if list(got) != exp:
        return f'line {line!r} parses to {list(got)!r}, the namespace tokens joined by "-" without the prefix give {exp!r}'
    return None


def run_vw(job):
    import z3
    from vlib import hutil
    from vlib.symx import SInt
    from vlib import symx
    loader.record_functions('outrank/core_utils.py', ['generic_line_parser', 'parse_ob_line_vw'])
    st = {}

    def setup(ctx):
        st['a'], st['b'], st['two'], st['x'] = z3.Int('t1'), z3.Int('t2'), z3.Bool('two'), z3.Int('extra')
        ctx.assume(st['a'] >= 0, st['a'] < len(VW_TOKENS), st['b'] >= 0, st['b'] < len(VW_TOKENS), st['x'] >= 0, st['x'] < len(VW_EXTRA))

    def body(ctx, out):
        t1, t2 = VW_TOKENS[int(SInt(st['a'], 0, len(VW_TOKENS) - 1))], VW_TOKENS[int(SInt(st['b'], 0, len(VW_TOKENS) - 1))]
        two = bool(symx.SBool(st['two']))
        extra = int(SInt(st['x'], 0, len(VW_EXTRA) - 1))
        w = {'cond': 'vw_tokens', 'fn': 'vw_tokens', 't1': t1, 't2': t2, 'two': two, 'extra': extra}
        try:
            p = vw_problem(t1, t2, two, extra)
        except Exception as e:
            p = f'{type(e).__name__}: {e}'
        if p or out.twin:
            out.concrete_fail(w, p or 'twin')
        else:
            out.concrete_ok()
        out.sample(w)
    return hutil.run_symx(job, setup, body)


def jobs(tier):
    import pandas  # noqa
    out = _ch_jobs(tier)
    out.append({'cond': 'vw_tokens', 'pins': {}, 'weight': 10, 'label': 'VW tokens containing non-breaking / ideographic spaces, tabs, colons'})
    for c0 in range(len(LOOP_POOL)):
        out.append({'cond': 'loop_tsv', 'pins': {'c0': c0}, 'weight': 20, 'label': f'streaming loop on tab-separated rows, first cell {LOOP_POOL[c0]!r}'})
    return out


def run_job(job):
    if job['cond'] == 'vw_tokens':
        return run_vw(job)
    return run_loop(job) if job['cond'] == 'loop_tsv' else _ch_run(job)


def replay(w):
    if w.get('fn') == 'vw_tokens':
        try:
            p = vw_problem(w['t1'], w['t2'], w['two'], w.get('extra', 0))
        except Exception as e:
            p = f'{type(e).__name__}: {e}'
        if p:
            return {'reproduced': True, 'signature': 'C16:vw-tokens', 'what': p}
        return {'reproduced': False, 'what': 'tokens land in their column unmodified'}
    if w.get('fn') == 'loop_tsv':
        try:
            p = loop_problem(w['table'])
        except Exception as e:
            p = f'{type(e).__name__}: {e}'
        if p:
            return {'reproduced': True, 'signature': 'C16:loop-tsv', 'what': f'tab-separated file with rows {w["table"]} through the streaming loop: {p}'}
        return {'reproduced': False, 'what': 'every well-formed row reaches the ranking'}
    return _replay_ch(w)


def _replay_ch(w):
    """the condition function evaluated concretely with the REAL outrank.core_utils module in place of the loaded source"""
    loader.use_repo_on_syspath()
    import outrank.core_utils as real
    from harness import ch_c16
    ch_c16.CU = real.__dict__
    args, kw = chharness.call_args(w)
    try:
        ok = getattr(ch_c16, w['fn'])(*args, **kw)
    except Exception as e:
        return {'reproduced': True, 'signature': f'C16:{w["fn"]}:exception:{type(e).__name__}', 'what': f'{w["fn"]}{tuple(args)}: {type(e).__name__}: {e}'}
    if not ok:
        fam = w['fn'].split('_')[0]
        edge = fam == 'tsv' and any(isinstance(a, str) and a.strip() == '' for a in args)
        sig = 'C16:tsv-edge-cells-stripped' if edge else f'C16:{w["fn"]}'
        return {'reproduced': True, 'signature': sig, 'what': f'{w["fn"]}{tuple(args)}: the parsed row differs from the cells the line was rendered from' + (' (empty/blank cell at the edge of a tab-separated row is eaten by strip())' if edge else '')}
    return {'reproduced': False, 'what': 'parsed as rendered'}

