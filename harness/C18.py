"""C18 - feature summary = per-feature median of label scores, sorted, normalised (symx + list-backed pandas stand-in)."""
from __future__ import annotations

import os
import types

import z3

from vlib import hutil, loader, symx, sympd
from vlib.symx import SInt, SReal

ID = 'C18'

MANIFEST = {
    'engine': 'symx',
    'text': 'Bounded symbolic model checking of the real task_summary source (outrank_task_result_summary and every function it calls) on a list-backed pandas stand-in: every score of pairwise_ranks.tsv is a FREE REAL variable, feature names are chosen by the solver from an adversarial pool built with the pipeline\'s own naming (annotated names, interaction names, a plain name containing the letters AND), the heuristic name (MI-numba-randomized, AMI, max-value-coverage) and the interaction order (1..3, not necessarily the arity of the interaction names) are per job. On every path z3 shows: each feature scored against the label appears once, with the median of exactly those scores (order-statistics characterisation), in descending order; for MI heuristics the emitted value is the affine min-max image (best 1, worst 0, order preserved) whenever two medians differ; the aggregated table lists exactly the constituents of interaction features with the median of the emitted scores of the interactions containing them. Each summary of the name-symbolic condition is preceded by a summary of the same table with another label column in the same process (history). Heuristic names include AMI (contains MI without starting with it) and the interaction order may differ from the arity of the interaction names in the table (order 3 over pair names).',
    'note': 'Tables of <=3 triplet rows (quick) / 4 (thorough); exact reals; the quotient of the min-max map is a fresh real constrained by t*(max-min) = x-min (small nonlinear constraint); pandas replaced by the sympd stand-in (row order preserved, groupby keys sorted, stable sorts); file I/O stubbed; the all-equal case (division by zero) is outside the statement.',
    'technique': 'symbolic execution of the real Python source with z3 (scores as free reals, sorting by solver-decided comparisons)',
}

POOL = ['label_freq-(3; 100)', 'fa AND fb-(9; 100)', 'BRAND', 'fb AND BRAND-(4; 50)']
LABEL = 'label-(2; 100)'
BOUNDS = {'quick': {'names': [1, 2, 3], 'numeric': [1, 2, 3]}, 'thorough': {'names': [3, 4], 'numeric': [3, 4]}}
F, I1, B, I2 = POOL
I3 = 'fc AND fd'      # an interaction name WITHOUT the '-(cardinality; coverage)' annotation (--include_cardinality_in_feature_names False)
# name patterns for the numeric condition (scores free reals): same feature several times, both orientations, interactions sharing a constituent, a non-label row
TEMPLATES = {
    1: [[(F, LABEL)], [(LABEL, I1)]],
    2: [[(F, LABEL), (LABEL, F)], [(F, LABEL), (I1, LABEL)], [(I2, LABEL), (LABEL, I1)], [(B, LABEL), (I2, LABEL)], [(I3, LABEL), (LABEL, I1)]],
    3: [[(I3, LABEL), (LABEL, I3), (I2, LABEL)], [(F, LABEL), (LABEL, F), (F, LABEL)], [(F, LABEL), (I1, LABEL), (I2, LABEL)], [(B, LABEL), (I2, LABEL), (LABEL, I1)], [(F, LABEL), (F, I1), (LABEL, I1)], [(I1, LABEL), (LABEL, I1), (I2, LABEL)]],
    4: [[(F, LABEL), (LABEL, F), (F, LABEL), (LABEL, F)], [(F, LABEL), (I1, LABEL), (I2, LABEL), (B, LABEL)], [(I1, LABEL), (LABEL, I1), (I2, LABEL), (I2, LABEL)], [(F, LABEL), (F, LABEL), (I1, LABEL), (B, I2)]],
}
NUMS = [0.75, -1.5, 3.0, 0.25, 2.0]
INFO = {
    'engine': 'symx + z3 (LRA + small NRA side constraints)',
    'explanation': 'see level text',
    'bounds': {t: {'names': f'{v["names"]} triplet rows, names chosen from {POOL} and the label, each row (f,label) / (label,f) / (f,f\'), fixed distinct scores',
                   'numeric': f'{v["numeric"]} triplet rows, scores FREE REALS, name patterns from a fixed list of templates'} for t, v in BOUNDS.items()},
    'outside': ['text form of floats', 'file I/O', 'the all-equal case of the min-max normalisation', 'larger tables'],
    'assumptions': ['sympd stand-in (validated differentially against real pandas)', 'np.median stand-in: sort by forking comparisons'],
    'job_timeout': {'quick': 300, 'thorough': 2400},
}


def load_mod():
    npm = types.SimpleNamespace(median=sympd.median)
    ns = loader.load('outrank/task_summary.py', shims={'pandas': sympd, 'numpy': npm},
                     record=['read_and_sort_triplets', 'generate_final_ranking', 'create_final_dataframe', 'store_summary_files', 'handle_interaction_order', 'filter_transformers_only', 'outrank_task_result_summary'])
    ns['logging'] = types.SimpleNamespace(info=lambda *a, **k: None, basicConfig=lambda *a, **k: None, INFO=0)
    return ns


def jobs(tier):
    out = []
    from vlib import selfcheck
    selfcheck.check_sympd()      # the pandas stand-in must agree with the real pandas on the operations the code uses
    for cond in ('names', 'numeric'):
        for n in BOUNDS[tier][cond]:
            # AMI: a heuristic whose name contains "MI" without starting with it; order 3 with pair interactions in the table: the arity of
            # an interaction name need not equal the interaction order the summary is asked for
            for heur, order in [(h, o) for h in ('MI-numba-randomized', 'max-value-coverage') for o in (1, 2)] + ([('AMI', 1), ('AMI', 2)] if cond == 'numeric' else [('max-value-coverage', 3)]):
                for _ in (0,):
                    if cond == 'names':
                        pins_list = [{}] if n <= 2 else list(hutil.product_pins([('n0', range(len(POOL))), ('k0', range(3))]))
                        for pins in pins_list:
                            out.append({'cond': cond, 'n': n, 'heur': heur, 'order': order, 'pins': pins, 'weight': 12 ** n, 'label': f'rows={n},{heur},order={order},{pins}'})
                    else:
                        for ti in range(len(TEMPLATES[n])):
                            out.append({'cond': cond, 'n': n, 'heur': heur, 'order': order, 'pins': {}, 'template': ti, 'weight': 30 ** n, 'label': f'rows={n},{heur},order={order},template={ti}'})
    return out


def run_job(job):
    n, heur, order = job['n'], job['heur'], job['order']
    numeric = job['cond'] == 'numeric'
    ns = load_mod()
    st = {}

    def setup(ctx):
        st['s'] = [z3.Real(f's{i}') for i in range(n)]
        if not numeric:
            for i in range(n):
                ctx.assume(st['s'][i] == z3.RealVal(str(NUMS[i])))
        st['n'] = [z3.Int(f'n{i}') for i in range(n)]
        st['m'] = [z3.Int(f'm{i}') for i in range(n)]
        st['k'] = [z3.Int(f'k{i}') for i in range(n)]
        for i in range(n):
            ctx.assume(st['n'][i] >= 0, st['n'][i] < len(POOL), st['m'][i] >= 0, st['m'][i] < len(POOL), st['k'][i] >= 0, st['k'][i] <= 2)
            ctx.assume(z3.Implies(st['k'][i] != 2, st['m'][i] == 0))
        for k, v in job['pins'].items():
            ctx.assume(z3.Int(k) == v)

    def rows_of(ctx):
        if numeric:
            return list(TEMPLATES[n][job['template']])
        rows = []
        for i in range(n):
            f = POOL[int(SInt(st['n'][i], 0, len(POOL) - 1))]
            k = int(SInt(st['k'][i], 0, 2))
            g = POOL[int(SInt(st['m'][i], 0, len(POOL) - 1))] if k == 2 else None
            rows.append((f, LABEL) if k == 0 else ((LABEL, f) if k == 1 else (f, g)))
        return rows

    def wit_for(rows):
        def wit(m):
            def val(v):
                r = m.eval(v, model_completion=True)
                return r.numerator_as_long() / r.denominator_as_long()
            return {'cond': 'summary', 'heur': heur, 'order': order, 'rows': [[a, b, val(st['s'][i])] for i, (a, b) in enumerate(rows)]}
        return wit

    def body(ctx, out):
        symx.NRA_MODE = True
        rows = rows_of(ctx)
        wit = wit_for(rows)
        sympd.WRITTEN.clear()
        sympd.WRITTEN['prev/pairwise_ranks.tsv'] = sympd.WRITTEN['out/pairwise_ranks.tsv'] = {'columns': ['FeatureA', 'FeatureB', 'Score'],
                                                   'rows': [[a, b, (SReal(z=st['s'][i]) if numeric else SReal.of(symx.F(str(NUMS[i]))))] for i, (a, b) in enumerate(rows)], 'index': False}
        args = types.SimpleNamespace(output_folder='out', label_column='label', heuristic=heur, tldr=False, interaction_order=order)
        if not numeric:
            # a history in one process: an earlier summary of the same table with ANOTHER label column must not influence this one
            try:
                ns['outrank_task_result_summary'](types.SimpleNamespace(output_folder='prev', label_column='BRAND', heuristic=heur, tldr=False, interaction_order=order))
            except Exception:
                pass
            sympd.WRITTEN.pop(os.path.join('out', 'feature_singles.tsv'), None)
            sympd.WRITTEN.pop(os.path.join('out', 'feature_singles_aggregated.tsv'), None)
        opp = {}
        for i, (a, b) in enumerate(rows):
            if a == LABEL and b != LABEL:
                opp.setdefault(b, []).append(st['s'][i])
            elif b == LABEL:
                opp.setdefault(a, []).append(st['s'][i])
        if not opp:
            # nothing scored against the label: the statement says nothing; the code may produce an empty table or fail on it
            try:
                ns['outrank_task_result_summary'](args)
            except Exception:
                pass
            out.concrete_ok() if not out.twin else out.concrete_fail({'cond': 'summary', 'rows': []}, 'twin')
            return
        ns['outrank_task_result_summary'](args)
        single = sympd.WRITTEN.get(os.path.join('out', 'feature_singles.tsv'))
        bad = []
        if single is None or single['columns'] != ['Feature', f'Score {heur}']:
            bad.append(z3.BoolVal(True))
        else:
            feats = [r[0] for r in single['rows']]
            vals = [SReal.of(r[1]).z for r in single['rows']]
            if sorted(feats) != sorted(opp):
                bad.append(z3.BoolVal(True))
            else:
                med = {f: z3.Real(f'med_{i}') for i, f in enumerate(sorted(opp))}
                defs = z3.And([hutil.z_is_median(med[f], opp[f]) for f in med])
                mlist = list(med.values())
                mx, mn = mlist[0], mlist[0]
                for v in mlist[1:]:
                    mx = z3.If(v > mx, v, mx)
                    mn = z3.If(v < mn, v, mn)
                if 'MI' in heur:
                    pre = mx != mn
                    for i in range(len(vals) - 1):
                        bad.append(z3.And(defs, pre, vals[i] < vals[i + 1]))
                    for f, v in zip(feats, vals):
                        bad.append(z3.And(defs, pre, v * (mx - mn) != med[f] - mn))
                        bad.append(z3.And(defs, pre, med[f] == mx, v != 1))
                        bad.append(z3.And(defs, pre, med[f] == mn, v != 0))
                else:
                    pre = z3.BoolVal(True)
                    for i in range(len(vals) - 1):
                        bad.append(vals[i] < vals[i + 1])
                    for f, v in zip(feats, vals):
                        bad.append(z3.And(defs, v != med[f]))
                agg = sympd.WRITTEN.get(os.path.join('out', 'feature_singles_aggregated.tsv'))
                inter = [f for f in feats if ' AND ' in f]
                if order > 1:
                    exp = {}
                    for f, v in zip(feats, vals):
                        if ' AND ' in f:
                            for el in f.split('-')[0].split(' AND '):
                                exp.setdefault(el, []).append(v)
                    if agg is None:
                        bad.append(z3.BoolVal(bool(exp)))
                    else:
                        got = {r[0]: SReal.of(r[1]).z for r in agg['rows']} if agg['rows'] else {}
                        if sorted(got) != sorted(exp) or len(agg['rows']) != len(exp):
                            bad.append(z3.BoolVal(True))
                        else:
                            for el in exp:
                                bad.append(z3.And(defs, pre, z3.Not(hutil.z_is_median(got[el], exp[el]))))
                elif agg is not None:
                    bad.append(z3.BoolVal(True))
        out.never(ctx, z3.Or(bad) if bad else z3.BoolVal(False), wit, 'feature summary differs from per-feature median / order / normalisation / aggregation')
        out.sample({'rows': [list(r) for r in rows], 'heuristic': heur, 'order': order})
    return hutil.run_symx(job, setup, body, wit=None)


def replay(w):
    """the real task_summary with the real pandas on real files"""
    import shutil
    import statistics
    import tempfile
    import pandas as pd
    loader.use_repo_on_syspath()
    from outrank import task_summary as ts
    d = tempfile.mkdtemp(prefix='c18-', dir='/var/tmp')
    try:
        pd.DataFrame(w['rows'], columns=['FeatureA', 'FeatureB', 'Score']).to_csv(os.path.join(d, 'pairwise_ranks.tsv'), sep='\t', index=False)
        args = types.SimpleNamespace(output_folder=d, label_column='label', heuristic=w['heur'], tldr=False, interaction_order=w['order'])
        try:
            try:
                ts.outrank_task_result_summary(types.SimpleNamespace(output_folder=d, label_column='BRAND', heuristic=w['heur'], tldr=False, interaction_order=w['order']))
            except Exception:
                pass
            for f in ('feature_singles.tsv', 'feature_singles_aggregated.tsv'):
                if os.path.exists(os.path.join(d, f)):
                    os.remove(os.path.join(d, f))
            ts.outrank_task_result_summary(args)
        except Exception as e:
            return {'reproduced': True, 'signature': f'C18:exception:{type(e).__name__}', 'what': f'rows {w["rows"]}: {type(e).__name__}: {e}'}
        single = pd.read_csv(os.path.join(d, 'feature_singles.tsv'), sep='\t')
        opp = {}
        for a, b, s in w['rows']:
            if a == LABEL and b != LABEL:
                opp.setdefault(b, []).append(s)
            elif b == LABEL:
                opp.setdefault(a, []).append(s)
        med = {f: statistics.median(v) for f, v in opp.items()}
        mx, mn = max(med.values()), min(med.values())
        probs = []
        got = list(zip(single['Feature'], single[f'Score {w["heur"]}']))
        if sorted(f for f, _ in got) != sorted(med):
            probs.append(f'features listed {sorted(f for f, _ in got)} vs scored against the label {sorted(med)}')
        else:
            exp = {f: ((m - mn) / (mx - mn) if ('MI' in w['heur'] and mx != mn) else m) for f, m in med.items()}
            if 'MI' in w['heur'] and mx == mn:
                return {'reproduced': False, 'what': 'all medians equal (outside the statement)'}
            for f, v in got:
                if abs(v - exp[f]) > 1e-9:
                    probs.append(f'{f}: {v} vs expected {exp[f]}')
            if any(got[i][1] < got[i + 1][1] - 1e-12 for i in range(len(got) - 1)):
                probs.append('not in descending order')
            if w['order'] > 1:
                e2 = {}
                for f, v in got:
                    if ' AND ' in f:
                        for el in f.split('-')[0].split(' AND '):
                            e2.setdefault(el, []).append(v)
                p2 = os.path.join(d, 'feature_singles_aggregated.tsv')
                try:
                    agg = pd.read_csv(p2, sep='\t') if os.path.exists(p2) else None
                except pd.errors.EmptyDataError:
                    agg = None
                g2 = dict(zip(agg.iloc[:, 0], agg.iloc[:, 1])) if agg is not None and len(agg.columns) >= 2 else {}
                x2 = {k: statistics.median(v) for k, v in e2.items()}
                if sorted(g2) != sorted(x2) or any(abs(g2[k] - x2[k]) > 1e-9 for k in x2):
                    plain = [f for f, _ in got if ' AND ' not in f and 'AND' in f]
                    probs.append(f'aggregated table {g2} vs per-constituent medians over interaction features {x2}' + (f' (plain feature {plain} contains the letters AND)' if plain else ''))
        if probs:
            sig = 'C18:AND-substring-in-plain-name' if any('contains the letters AND' in p for p in probs) and len(probs) == 1 else 'C18:summary'
            return {'reproduced': True, 'signature': sig, 'what': f'heuristic {w["heur"]}, interaction order {w["order"]}, rows {w["rows"]}: ' + '; '.join(probs)[:500]}
        return {'reproduced': False, 'what': 'summary as specified'}
    finally:
        shutil.rmtree(d, ignore_errors=True)
