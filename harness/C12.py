"""C12 - transformations compute what their names say; degenerate ones are dropped; preset lists select the union (symx)."""
from __future__ import annotations

import math
import re
import types
from fractions import Fraction as F

import z3

from vlib import hutil, loader, symx, xnp
from vlib.symx import SInt, SReal

ID = 'C12'

MANIFEST = {
    'engine': 'symx',
    'text': 'Solver-based check of the real transformer tables and the real construct_new_features / FeatureTransformerGeneric source: (1) every expression string of the minimal, default and fw tables is evaluated on an array of free real variables with sqrt/log/round and non-linear products as uninterpreted functions and z3 shows it equal, for ALL real X, to the function its name denotes (fw: resolution and threshold parsed from the name); (2) the keep/drop rule is explored over all token patterns of columns with 4 and 5 rows (hitting both thresholds exactly) through the real function with real numpy; (3) every preset list of up to 3 of the six preset names must select the union of the presets; (4) the numeric parse is explored over all strings of <=3 characters from a small alphabet.',
    'note': 'Reals instead of floats (NaN/inf propagation and rounding outside); sqrt/log/round uninterpreted (sound for proving equality; a difference would have to reproduce concretely before being reported); text form of floats not modelled; the keep/drop tokens include -0.0 and 0.0 (numerically equal, textually different); conditions 2-4 concretise their inputs through solver decisions (bounded exhaustive).',
    'technique': 'z3 QF_UFLRA equivalence of the repository\'s expression strings with name-derived reference functions over free reals; bounded symbolic exploration of the keep/drop rule, preset merge and parse',
}

PRESETS = ['default', 'minimal', 'fw-transformers', 'extended', 'verbose', 'extended_rounded']
BOUNDS = {'quick': {'formula': 1, 'keepdrop': [4, 5], 'union': 2, 'parse': 3}, 'thorough': {'formula': 1, 'keepdrop': [3, 4, 5, 6, 7, 8], 'union': 3, 'parse': 5}}
INFO = {
    'engine': 'symx + z3 (QF_UFLRA)',
    'explanation': 'formula: exists X in R: expr(X) != ref_name(X) must be unsat for each of the table entries, sqrt/log/round/products uninterpreted.',
    'bounds': {t: {'formula': 'all entries of minimal, default, fw-transformers; X two free reals (element-wise formulas + np.max over the column)',
                   'keepdrop': f'columns of {b["keepdrop"]} rows over 3 tokens incl. nan', 'union': f'preset lists of 1..{b["union"]} names out of 6', 'parse': f'strings of <= {b["parse"]} chars over 1 . " - e',
                   'text': 'two cells from 8 adversarial numeric texts (long reprs, integer-looking beyond 3.03e9, huge, quoted, empty) + 3 fixed rows, presets minimal/default/fw-transformers, real pandas/numpy'} for t, b in BOUNDS.items()},
    'outside': ['NaN/inf propagation and float rounding', 'extended/verbose tables are only covered by the union condition, not by the formula condition (the statement names minimal/default/fw)'],
    'assumptions': ['sqrt, log, round(.,0), products and quotients of non-constant terms are uninterpreted total functions on reals (UF mode)'],
    'job_timeout': {'quick': 200, 'thorough': 1200},
}

VAULT = 'outrank/feature_transformations/feature_transformer_vault/'


def load_tables():
    d = loader.load(VAULT + 'default_transformers.py')
    dm = loader.as_module(d, 'outrank.feature_transformations.feature_transformer_vault.default_transformers')
    fw = loader.load(VAULT + 'fw_transformers.py', shims={'outrank.feature_transformations.feature_transformer_vault.default_transformers': dm})
    return d, fw


# ---- UF-mode numpy for the expression strings ---------------------------------------------------
def _ew(f):
    def g(a, *rest):
        if isinstance(a, xnp.Arr):
            return xnp.Arr([f(x, *[(r.data[i] if isinstance(r, xnp.Arr) else r) for r in rest]) for i, x in enumerate(a.data)], 'real')
        return f(a, *rest)
    return g


def _uf1(name):
    return _ew(lambda x: SReal(z=symx.uf(name, SReal.of(x).z)))


def ufnp():
    m = types.SimpleNamespace()
    m.sqrt = _uf1('sqrt')
    m.log = _uf1('log')
    m.abs = _ew(lambda x: abs(SReal.of(x)))
    m.divide = _ew(lambda a, b: SReal.of(a) / SReal.of(b))
    m.power = _ew(lambda a, k: SReal.of(a) ** k)

    def rnd(a, k=0):
        if k != 0:
            raise symx.ShimUnsupported('round to decimals')
        return _uf1('round')(a)
    m.round = rnd

    def where(c, a, b):
        n = len(c.data)
        out = []
        for i in range(n):
            ai = a.data[i] if isinstance(a, xnp.Arr) else a
            bi = b.data[i] if isinstance(b, xnp.Arr) else b
            out.append(symx.ite(c.data[i], SReal.of(ai), SReal.of(bi)))
        return xnp.Arr(out, 'real')
    m.where = where

    def mx(a):
        e = a.data[0]
        for v in a.data[1:]:
            e = symx.ite(v > e, v, e)
        return e
    m.max = mx
    return m


def ref_for(name, X):
    """the function the transformer's NAME denotes, on the symbolic column X (list of SReal)"""
    N = ufnp()
    A = xnp.Arr(X, 'real')
    m = re.fullmatch(r'_tr_fw(_prob)?_(sqrt|log)_res_(\d+)_gt_([0-9.]+)', name)
    if m:
        f = N.sqrt if m.group(2) == 'sqrt' else N.log
        res, g = int(m.group(3)), F(float(m.group(4)))  # the float the name's text denotes, as in the expression string
        out = []
        for x in X:
            inner = f(x - g) * res
            out.append(symx.ite(x < g, x, symx.ite(x > g, N.round(inner), SReal.of(0))))
        return out
    table = {
        '_tr_sqrt': lambda: N.sqrt(A),
        '_tr_log(x+1)': lambda: N.log(A + 1),
        '_tr_sqrt(abs(x))': lambda: N.sqrt(N.abs(A)),
        '_tr_log(abs(x)+1)': lambda: N.log(N.abs(A) + 1),
        '_tr_div(x,abs(x))*log(abs(x))': lambda: N.divide(A, N.abs(A)) * N.log(N.abs(A)),
        '_tr_log(x + sqrt(pow(x,2), 1)': lambda: N.log(A + N.sqrt(N.power(A, 2) + 1)),
        '_tr_log*sqrt': lambda: N.log(A + 1) * N.sqrt(A),
        '_tr_log*100': lambda: N.round(N.log(A + 1) * 100),
        '_tr_nonzero': lambda: xnp.Arr([symx.ite(x != 0, SReal.of(1), SReal.of(0)) for x in X]),
        '_tr_round(div(x,max))': lambda: N.round(N.divide(A, N.max(A))),
    }
    if name not in table:
        return None
    return table[name]().data


def c_ref(name, xs):
    """concrete reference (floats) for the per-entry validation against the real pipeline"""
    import numpy as np
    X = np.array(xs, dtype=float)
    m = re.fullmatch(r'_tr_fw(_prob)?_(sqrt|log)_res_(\d+)_gt_([0-9.]+)', name)
    with np.errstate(all='ignore'):
        if m:
            f = np.sqrt if m.group(2) == 'sqrt' else np.log
            res, g = int(m.group(3)), float(m.group(4))
            return np.array([x if x < g else (np.round(f(x - g) * res, 0) if x > g else 0.0) for x in X])
        t = {
            '_tr_sqrt': lambda: np.sqrt(X), '_tr_log(x+1)': lambda: np.log(X + 1), '_tr_sqrt(abs(x))': lambda: np.sqrt(np.abs(X)),
            '_tr_log(abs(x)+1)': lambda: np.log(np.abs(X) + 1), '_tr_div(x,abs(x))*log(abs(x))': lambda: X / np.abs(X) * np.log(np.abs(X)),
            '_tr_log(x + sqrt(pow(x,2), 1)': lambda: np.log(X + np.sqrt(X ** 2 + 1)), '_tr_log*sqrt': lambda: np.log(X + 1) * np.sqrt(X),
            '_tr_log*100': lambda: np.round(np.log(X + 1) * 100, 0), '_tr_nonzero': lambda: np.where(X != 0, 1, 0), '_tr_round(div(x,max))': lambda: np.round(X / np.max(X), 0),
        }
        return t[name]()


def same_num(a, b):
    a, b = float(a), float(b)
    if math.isnan(a) or math.isnan(b):
        return math.isnan(a) and math.isnan(b)
    if math.isinf(a) or math.isinf(b):
        return a == b
    return a == b or abs(a - b) <= 1e-9 * max(1.0, abs(a))


def jobs(tier):
    import pandas  # noqa
    b = BOUNDS[tier]
    out = [{'cond': 'formula', 'table': t, 'label': t, 'weight': 10} for t in ('MINIMAL_TRANSFORMERS', 'DEFAULT_TRANSFORMERS', 'FW_TRANSFORMERS')]
    out += [{'cond': 'keepdrop', 'n': n, 'label': f'n={n}', 'weight': 3 ** n} for n in b['keepdrop']]
    out += [{'cond': 'union', 'k': b['union'], 'label': f'k<={b["union"]}', 'weight': 6 ** b['union']}]
    out += [{'cond': 'text', 'pins': {'preset': p}, 'label': f'emitted texts, preset {TEXT_PRESETS[p]}', 'weight': 64} for p in range(len(TEXT_PRESETS))]
    out += [{'cond': 'parse', 'k': b['parse'], 'label': f'len<={b["parse"]}', 'weight': 5 ** b['parse']}]
    return out


def run_formula(job):
    out = hutil.Out(job)
    symx.UF_MODE = True
    d, fw = load_tables()
    table = fw[job['table']] if job['table'] == 'FW_TRANSFORMERS' else d[job['table']]
    ctx = symx.Ctx()
    symx.CTX = ctx
    x0, x1 = z3.Real('X0'), z3.Real('X1')
    X = [SReal(z=x0), SReal(z=x1)]
    N = ufnp()
    npaths = 0
    import numpy as np
    for name, expr in table.items():
        npaths += 1
        ref = ref_for(name, X)
        if ref is None:
            out.inconclusive.append(f'no name-derived reference for {name!r} (new table entry?)')
            continue
        try:
            got = eval(expr, {'np': N, 'X': xnp.Arr(X, 'real')})
        except symx.ShimUnsupported as e:
            out.inconclusive.append(f'{name}: {e}')
            continue
        gd = got.data if isinstance(got, xnp.Arr) else [got, got]
        bad = z3.Or([SReal.of(a).z != SReal.of(b).z for a, b in zip(gd, ref)])

        def wit(m, name=name, expr=expr):
            def val(v):
                r = m.eval(v, model_completion=True)
                return str(F(r.numerator_as_long(), r.denominator_as_long())) if z3.is_rational_value(r) else str(r)
            return {'cond': 'formula', 'table': job['table'], 'name': name, 'expr': expr, 'X': [val(x0), val(x1)]}
        ctx.solver.push()
        out.never(ctx, bad, wit, f'{name}: expression differs from the function its name denotes')
        ctx.solver.pop()
        if out.twin and out.candidates:
            break
        # translation validation: the real numpy evaluation of the string vs the concrete reference on a few points
        if not out.twin:
            pts = [0.0, 0.5, 1.0, 2.0, 3.5, 17.0, 97.0, 100.0, 0.33, 0.96]
            with np.errstate(all='ignore'):
                real = eval(expr, {'np': np, 'X': np.array(pts)})
                exp = c_ref(name, pts)
            same = all(same_num(a, b) for a, b in zip(real, exp))
            out.validated += 1
            if not same:
                out.concrete_fail({'cond': 'formula', 'table': job['table'], 'name': name, 'expr': expr, 'X': [str(p) for p in pts]}, f'{name}: numpy evaluation differs from the reference on sample points')
    out.sample({'table': job['table'], 'entries': len(table), 'example': next(iter(table.items()))})
    return {'paths': npaths, 'decisions': npaths, 'queries': ctx.nq, 'solver_s': round(ctx.tq, 3), 'obligations': out.obligations, 'discharged': out.discharged,
            'candidates': out.candidates, 'inconclusive': out.inconclusive, 'validated': out.validated, 'samples': out.samples,
            'cert': {'ok': True, 'kind': 'every table entry is one obligation over all real X (no path split)'}}


def real_generic():
    loader.use_repo_on_syspath()
    from outrank.feature_transformations import ranking_transformers as rt
    return rt


TOKENS = ['1.0', '0.0', '-0.0', 'nan']      # '-0.0' and '0.0' are different texts of numerically equal values


def keep_expected(col):
    n = len(col)
    from collections import Counter
    c = Counter(col)
    return len(c) > 1 and max(c.values()) / n < 0.8 and c.get('nan', 0) / n < 0.75


def run_keepdrop(job):
    n = job['n']
    rt = real_generic()
    loader.record_functions('outrank/feature_transformations/ranking_transformers.py', ['FeatureTransformerGeneric.construct_new_features', 'FeatureTransformerGeneric.get_vals', 'FeatureTransformerGeneric.__init__'])
    import numpy as np
    import pandas as pd
    st = {}

    def setup(ctx):
        st['t'] = [z3.Int(f't{i}') for i in range(n)]
        for v in st['t']:
            ctx.assume(v >= 0, v < len(TOKENS))

    def body(ctx, out):
        col = [TOKENS[int(SInt(v, 0, len(TOKENS) - 1))] for v in st['t']]
        tr = rt.FeatureTransformerGeneric({'num'}, 'minimal')
        tr.transformer_collection = {'_tr_tok': 'np.array(TOK)'}
        rt.TOK = [float(x) for x in col]
        df = pd.DataFrame({'num': ['1'] * n, 'other': ['x'] * n})
        res = tr.construct_new_features(df)
        emitted = 'num_tr_tok' in res.columns
        ok = emitted == keep_expected(col) and (not emitted or list(res['num_tr_tok']) == col) and list(res['num']) == ['1'] * n
        if ok and not out.twin:
            out.concrete_ok()
        else:
            out.concrete_fail({'cond': 'keepdrop', 'col': col}, 'keep/drop rule')
        out.sample({'col': col, 'emitted': emitted})
    return hutil.run_symx(job, setup, body)


# numeric cells whose transformed values have long texts (17 significant digits with a sign and an exponent), integer-looking cells
# beyond 2^31.5 (their square leaves int64), huge, quoted and empty cells
TEXT_POOL = ['-1.2345678901234567e-05', '1.2345678901234567e+200', '-7.3e16', '3037000500', '5000000000', '', '0.1', '"12"']
TEXT_FIXED = ['1', '2', '3']
TEXT_FIXED_NEG = ['-1', '-2', '-3']      # with two negative cells on top: a column on which sqrt / log are undefined everywhere
TEXT_PRESETS = ['minimal', 'default', 'fw-transformers']


TEXT_FIRST = [None, 'default', 'minimal,fw-transformers']      # an earlier construction on the SAME frame object (a batch evaluated under two settings)


def text_problem(rt, preset, cells, first=None, neg=False):
    """real FeatureTransformerGeneric on a real frame: every emitted text, read back as a number, is the named formula of the parsed cell"""
    import pandas as pd
    col = list(cells) + (TEXT_FIXED_NEG if neg else TEXT_FIXED)
    frame = pd.DataFrame({'num': col, 'other': ['x'] * len(col)})
    if first:
        rt.FeatureTransformerGeneric({'num'}, first).construct_new_features(frame)
    tr = rt.FeatureTransformerGeneric({'num'}, preset)
    res = tr.construct_new_features(frame)
    xs = [parse_expected(c) for c in col]
    stray = [c for c in res.columns if c not in ('num', 'other') and c[len('num'):] not in tr.transformer_collection]
    if stray:
        return f'{len(stray)} emitted columns are not transformers of the selected preset {preset!r} (e.g. {stray[0]!r})' + (f' after an earlier construction with {first!r} on the same frame' if first else '')
    if list(res['num']) != col:
        return 'the source column changed'
    # emitted if and only if the keep rule holds for the column the named formula gives (distinct texts, majority share, NaN share)
    if not first:
        import math
        for name in tr.transformer_collection:
            try:
                vals = [float(v) for v in c_ref(name, xs)]
            except KeyError:
                continue
            keys = ['nan' if math.isnan(v) else repr(v) for v in vals]
            if any(k in ('inf', '-inf') for k in keys):
                continue      # infinities: outside what the reference decides
            cnt = {}
            for k in keys:
                cnt[k] = cnt.get(k, 0) + 1
            keep = len(cnt) > 1 and max(cnt.values()) / len(keys) < 0.8 and cnt.get('nan', 0) / len(keys) < 0.75
            if keep != (('num' + name) in res.columns):
                return f'num{name}: the named formula gives {keys}, so the column must {"" if keep else "not "}be emitted; it was {"" if ("num" + name) in res.columns else "not "}emitted'
    for c in res.columns:
        if c in ('num', 'other'):
            continue
        name = c[len('num'):]
        try:
            exp = c_ref(name, xs)
        except KeyError:
            continue      # a transformer outside the named families (extended tables): formula condition territory
        txt = list(res[c])
        if len(txt) != len(col):
            return f'{c}: {len(txt)} values for {len(col)} rows'
        for i, (t, e) in enumerate(zip(txt, exp)):
            try:
                ok = isinstance(t, str) and same_num(float(t), e)
            except ValueError:
                ok = False
            if not ok:
                return f'{c}: cell {col[i]!r} is emitted as {t!r}, the named formula gives {float(e)!r}'
    return None


def run_text(job):
    rt = real_generic()
    loader.record_functions('outrank/feature_transformations/ranking_transformers.py', ['FeatureTransformerGeneric.construct_new_features', 'FeatureTransformerGeneric.get_vals'])
    st = {}

    def setup(ctx):
        st['c'] = [z3.Int(f'c{i}') for i in range(2)]
        for v in st['c']:
            ctx.assume(v >= 0, v < len(TEXT_POOL))
        st['p'] = z3.Int('preset')
        ctx.assume(st['p'] >= 0, st['p'] < len(TEXT_PRESETS))
        st['f'] = z3.Int('first')
        ctx.assume(st['f'] >= 0, st['f'] < len(TEXT_FIRST))
        st['neg'] = z3.Bool('neg')
        ctx.assume(z3.Implies(st['neg'], st['f'] == 0))
        for k, v in job['pins'].items():
            ctx.assume(z3.Int(k) == v)

    def body(ctx, out):
        cells = [TEXT_POOL[int(SInt(v, 0, len(TEXT_POOL) - 1))] for v in st['c']]
        preset = TEXT_PRESETS[int(SInt(st['p'], 0, len(TEXT_PRESETS) - 1))]
        first = TEXT_FIRST[int(SInt(st['f'], 0, len(TEXT_FIRST) - 1))]
        neg = bool(symx.SBool(st['neg']))
        w = {'cond': 'text', 'cells': cells, 'preset': preset, 'first': first, 'neg': neg}
        try:
            p = text_problem(rt, preset, cells, first, neg)
        except Exception as e:
            p = f'{type(e).__name__}: {e}'
        if p or out.twin:
            out.concrete_fail(w, p or 'twin')
        else:
            out.concrete_ok()
        out.sample(w)
    return hutil.run_symx(job, setup, body)


def union_expected(names, vault):
    u = {}
    for nme in names:
        u.update(vault[nme])
    return u


def _vault_snapshot(tv):
    return {k: dict(v) for k, v in tv._tr_global_namespace.items()}


def _vault_restore(tv, snap):
    for k, v in snap.items():
        d = tv._tr_global_namespace[k]
        if d != v:
            d.clear()
            d.update(v)


def union_history(rt, tv, snap, first, second):
    """two constructions in one process: the second one must still see the presets as shipped"""
    probs = []
    for names in (first, second):
        if not names:
            continue
        tr = rt.FeatureTransformerGeneric({'num'}, ','.join(names))
        exp = union_expected(names, snap)
        if tr.transformer_collection != exp:
            probs.append(f'preset list {",".join(names)!r}' + (f' (after a transformer built with {",".join(first)!r})' if names is second and first else '') +
                         f' selects {len(tr.transformer_collection)} transformers, the union of the shipped presets has {len(exp)}')
            break
    return probs


def run_union(job):
    K = job['k']
    rt = real_generic()
    import outrank.feature_transformations.feature_transformer_vault as tv
    snap = _vault_snapshot(tv)
    st = {}

    def setup(ctx):
        for tag in ('a', 'b'):
            L = z3.Int(f'len{tag}')
            ctx.assume(L >= (0 if tag == 'a' else 1), L <= K)
            st['len' + tag] = L
            st['p' + tag] = [z3.Int(f'p{tag}{i}') for i in range(K)]
            for i, v in enumerate(st['p' + tag]):
                ctx.assume(v >= 0, v < len(PRESETS))
                ctx.assume(z3.Implies(L <= i, v == 0))

    def body(ctx, out):
        lists = []
        for tag in ('a', 'b'):
            L = int(SInt(st['len' + tag], 0, K))
            lists.append([PRESETS[int(SInt(st['p' + tag][i], 0, len(PRESETS) - 1))] for i in range(L)])
        _vault_restore(tv, snap)
        try:
            probs = union_history(rt, tv, snap, lists[0], lists[1])
        finally:
            _vault_restore(tv, snap)
        if probs or out.twin:
            out.concrete_fail({'cond': 'union', 'first': lists[0], 'presets': lists[1]}, probs[0] if probs else 'twin')
        else:
            out.concrete_ok()
        out.sample({'first': lists[0], 'second': lists[1]})
    return hutil.run_symx(job, setup, body)


ALPHA = ['1', '.', '"', '-', 'e']


def parse_expected(s):
    t = s.replace('"', '')
    return 0.0 if t == '' else float(t)


def run_parse(job):
    K = job['k']
    rt = real_generic()
    import pandas as pd
    st = {}

    def setup(ctx):
        st['len'] = z3.Int('len')
        ctx.assume(st['len'] >= 0, st['len'] <= K)
        st['c'] = [z3.Int(f'c{i}') for i in range(K)]
        for i, v in enumerate(st['c']):
            ctx.assume(v >= 0, v < len(ALPHA))
            ctx.assume(z3.Implies(st['len'] <= i, v == 0))

    def body(ctx, out):
        L = int(SInt(st['len'], 0, K))
        s = ''.join(ALPHA[int(SInt(st['c'][i], 0, len(ALPHA) - 1))] for i in range(L))
        tr = rt.FeatureTransformerGeneric({'num'}, 'minimal')
        try:
            exp = parse_expected(s)
        except ValueError:
            exp = 'error'
        try:
            got = float(tr.get_vals(pd.DataFrame({'num': [s, '2']}), 'num')[0])
        except ValueError:
            got = 'error'
        ok = (got == exp) or (isinstance(got, float) and isinstance(exp, float) and math.isnan(got) and math.isnan(exp))
        if ok and not out.twin:
            out.concrete_ok()
        else:
            out.concrete_fail({'cond': 'parse', 's': s}, 'numeric parse')
        out.sample({'s': s, 'parsed': got})
    return hutil.run_symx(job, setup, body)


def SHIPPED_PRESETS():
    """the presets as shipped, read from the source files (not from the possibly mutated live module)"""
    d, fw = load_tables()
    return {'default': dict(d['DEFAULT_TRANSFORMERS']), 'minimal': dict(d['MINIMAL_TRANSFORMERS']), 'fw-transformers': dict(fw['FW_TRANSFORMERS']),
            'extended': dict(d['EXTENDED_TRANSFORMERS']), 'verbose': dict(d['VERBOSE_TRANSFORMERS']), 'extended_rounded': dict(d['EXTENDED_ROUNDED_TRANSFORMERS'])}


def run_job(job):
    return {'formula': run_formula, 'keepdrop': run_keepdrop, 'union': run_union, 'parse': run_parse, 'text': run_text}[job['cond']](job)


def replay(w):
    rt = real_generic()
    import numpy as np
    import pandas as pd
    import outrank.feature_transformations.feature_transformer_vault as tv
    c = w['cond']
    if c == 'union':
        snap = SHIPPED_PRESETS()
        probs = union_history(rt, tv, snap, w.get('first') or [], w['presets'])
        if probs:
            names = w['presets']
            got = rt.FeatureTransformerGeneric({'num'}, ','.join(names)).transformer_collection if False else None
            hist = bool(w.get('first'))
            sig = 'C12:preset-union-after-history' if (hist and not union_history(rt, tv, SHIPPED_PRESETS(), [], w['presets']) == probs and 'after a transformer' in probs[0]) else 'C12:preset-union'
            return {'reproduced': True, 'signature': sig, 'what': probs[0]}
        return {'reproduced': False, 'what': 'union selected'}
    if c == 'text':
        try:
            p = text_problem(rt, w['preset'], w['cells'], w.get('first'), w.get('neg', False))
        except Exception as e:
            p = f'{type(e).__name__}: {e}'
        if p:
            return {'reproduced': True, 'signature': 'C12:text:' + p.split(':')[0][3:40], 'what': f'preset {w["preset"]}, numeric column {w["cells"] + (TEXT_FIXED_NEG if w.get("neg") else TEXT_FIXED)}: {p}'}
        return {'reproduced': False, 'what': 'every emitted text reads back as the named formula'}
    if c == 'keepdrop':
        col = w['col']
        tr = rt.FeatureTransformerGeneric({'num'}, 'minimal')
        tr.transformer_collection = {'_tr_tok': 'np.array(TOK)'}
        rt.TOK = [float(x) for x in col]
        res = tr.construct_new_features(pd.DataFrame({'num': ['1'] * len(col)}))
        emitted = 'num_tr_tok' in res.columns
        if emitted != keep_expected(col) or (emitted and list(res['num_tr_tok']) != col):
            return {'reproduced': True, 'signature': 'C12:keep-drop', 'what': f'transformed column {col}: emitted={emitted}, rule says {keep_expected(col)}'}
        return {'reproduced': False, 'what': 'rule followed'}
    if c == 'parse':
        s = w['s']
        tr = rt.FeatureTransformerGeneric({'num'}, 'minimal')
        try:
            exp = parse_expected(s)
        except ValueError:
            exp = 'error'
        try:
            got = float(tr.get_vals(pd.DataFrame({'num': [s, '2']}), 'num')[0])
        except ValueError:
            got = 'error'
        if got != exp and not (isinstance(got, float) and isinstance(exp, float) and math.isnan(got) and math.isnan(exp)):
            return {'reproduced': True, 'signature': 'C12:parse', 'what': f'get_vals({s!r}) = {got}, expected {exp}'}
        return {'reproduced': False, 'what': 'parse ok'}
    # formula: real pipeline on a one-column frame with the witness values (and a spread of others)
    name, tbl = w['name'], w['table']
    vault = {'MINIMAL_TRANSFORMERS': 'minimal', 'DEFAULT_TRANSFORMERS': 'default', 'FW_TRANSFORMERS': 'fw-transformers'}[tbl]
    expr = tv._tr_global_namespace[vault][name]
    pts = []
    for x in w['X']:
        try:
            pts.append(float(F(x)))
        except Exception:
            pass
    pts += [0.0, 0.5, 1.0, 2.0, 3.0, 5.0, 9.0, 17.0, 33.0, 65.0, 97.0, 100.0, 0.02, 0.05, 0.33, 0.65, 0.97, 250.0]
    m = re.fullmatch(r'_tr_fw(_prob)?_(sqrt|log)_res_(\d+)_gt_([0-9.]+)', name)
    if m:
        g = float(m.group(4))
        pts += [g, g + 1, g + 0.5, g * 2 + 3, g - 0.001, g + 0.25]
    with np.errstate(all='ignore'):
        real = eval(expr, {'np': np, 'X': np.array(pts, dtype=float)})
        exp = c_ref(name, pts)
    diffs = [(p, float(a), float(b)) for p, a, b in zip(pts, real, exp) if not same_num(a, b)]
    if diffs:
        return {'reproduced': True, 'signature': f'C12:formula:{name}', 'what': f'{name} = {expr!r}: at X={diffs[0][0]} gives {diffs[0][1]}, the named formula gives {diffs[0][2]}'}
    return {'reproduced': False, 'what': 'expression equals its named formula on the sample points'}
