"""C17 - 3MR ranking is a greedy-optimal permutation of the features (symx, all scores free reals)."""
from __future__ import annotations

import builtins
import math
import operator
import types
from fractions import Fraction as F
from typing import Any

import z3

from vlib import hutil, loader, symx
from vlib.symx import SReal

ID = 'C17'

MANIFEST = {
    'engine': 'symx',
    'text': 'Bounded symbolic model checking of the real rank_features_3MR source: every relevance, redundancy and relation score is a free real variable, per ordered pair a symbolic flag says whether the entry is missing from its dictionary; the strategy and (alpha, beta) are fixed per job over a grid. On every path z3 shows: each feature listed once, ranks 1..n in order, first feature has maximal relevance, and at each later position the chosen feature\'s importance (written independently over the z3 variables, median/mean/sum, missing = 0) is >= every remaining feature\'s. Condition task drives the real ranking task in 3MR mode with interaction order 2 and a symmetric token scorer and checks 3mr_ranks.tsv against the dictionaries rebuilt from pairwise_ranks.tsv (normalised relevance, redundancy, relation), i.e. the construction of the three dictionaries in task_ranking.py.',
    'note': 'Exact reals (near-tie float rounding outside); n<=4 features quick, n<=5 thorough; alpha,beta in {0,1/2,1,2}; np.median/np.mean replaced by a sorting stand-in that forks on comparisons; the result frame is built by the real pandas. The construction of the three dictionaries in task_ranking.py is exercised concretely in the C08 task-tail condition, not here.',
    'technique': 'symbolic execution of the real Python source with z3 over linear real arithmetic (scores as free reals)',
}

GRID = [F(0), F(1, 2), F(1), F(2)]
BOUNDS = {
    'quick': [(1, 'median'), (2, 'median'), (3, 'median'), (3, 'mean'), (3, 'sum'), (4, 'sum'), (4, 'mean')],
    'thorough': [(3, 'median'), (3, 'mean'), (3, 'sum'), (4, 'median'), (4, 'mean'), (4, 'sum'), (5, 'sum')],
}
INFO = {
    'engine': 'symx + z3',
    'explanation': 'Scores are free reals; `importance > top_importance` forks on solver-decided comparisons; greedy optimality is one z3 query per path.',
    'bounds': {t: [f'{n} features, strategy {s}, alpha/beta grid {[str(g) for g in GRID]}, sparse flags symbolic' for n, s in v] for t, v in BOUNDS.items()},
    'outside': ['float rounding in near-ties', 'more features than the bound', 'alpha/beta off the grid (products stay linear only for concrete alpha/beta)', 'NaN/inf scores (statement says finite)'],
    'assumptions': ['np.median/np.mean stand-in: sort by forking comparisons, median of even = mean of the middle two', 'set iteration order over feature names is whatever CPython gives in this process (the obligation is order-independent)'],
    'job_timeout': {'quick': 240, 'thorough': 2400},
}


def _sorted(vals):
    vals = list(vals)
    for i in range(1, len(vals)):
        j = i
        while j > 0 and (vals[j] < vals[j - 1]):
            vals[j], vals[j - 1] = vals[j - 1], vals[j]
            j -= 1
    return vals


class NP:
    inf = float('inf')

    @staticmethod
    def median(v):
        s = _sorted(v)
        n = len(s)
        return s[n // 2] if n % 2 else (s[n // 2 - 1] + s[n // 2]) * SReal.of(F(1, 2))

    @staticmethod
    def isclose(a, b, rtol=1e-05, atol=1e-08):
        # numpy.isclose: |a - b| <= atol + rtol * |b|; nothing finite is close to an infinity
        if any(isinstance(x, float) and x in (float('inf'), float('-inf')) for x in (a, b)):
            return a == b if not isinstance(a, SReal) and not isinstance(b, SReal) else False
        a, b = SReal.of(a), SReal.of(b)
        d = symx.ite(a >= b, a - b, b - a)
        ab = symx.ite(b >= SReal.of(0), b, SReal.of(0) - b)
        return d <= SReal.of(F(str(atol))) + SReal.of(F(str(rtol))) * ab

    @staticmethod
    def mean(v):
        return builtins.sum(v[1:], v[0]) * SReal.of(F(1, len(v)))


class SparseDict:
    def __init__(self, ent):
        self.ent = ent

    def get(self, k, default=None):
        if k not in self.ent:
            return default
        miss, v = self.ent[k]
        return symx.ite(symx.mkbool(miss), default, v)

    def __contains__(self, k):
        if k not in self.ent:
            return False
        return bool(symx.sym_not(symx.mkbool(self.ent[k][0])))   # forks on the presence flag

    def __getitem__(self, k):
        if k in self:
            return self.ent[k][1]
        raise KeyError(k)

    def _present(self):
        return [k for k in self.ent if k in self]

    def keys(self):
        return self._present()

    def __iter__(self):
        return iter(self._present())

    def __len__(self):
        return len(self._present())

    def items(self):
        return [(k, self.ent[k][1]) for k in self._present()]

    def values(self):
        return [self.ent[k][1] for k in self._present()]


def load_fn():
    import pandas as pd
    ns = loader.load('outrank/algorithms/importance_estimator.py', only=['rank_features_3MR'], extra={'np': NP, 'pd': pd, 'operator': operator, 'Any': Any})
    return ns['rank_features_3MR']


# ---- the task level: construction of the three dictionaries from the triplets, then 3mr_ranks.tsv --------------------------------
T_COLS = ['fa', 'fb', 'fc', 'fd', 'fe', 'label']
T_VARIANTS = 6


def t_score(variant):
    """a symmetric token scorer: a different value per unordered pair of column names, rearranged by the variant"""
    def f(x, y):
        k = '|'.join(sorted((x, y)))
        h = sum(ord(c) * (i + 3 + variant) for i, c in enumerate(k)) * (7 + 2 * variant) + 13 * variant
        return float(h % 997) / 997.0
    return f


def t_problem(variant, nfeat):
    import statistics
    from harness import C08
    cols = T_COLS[:nfeat] + ['label']
    rows = [[f'{c[1]}{(i * (j + 2) + i // 2) % 3}' for j, c in enumerate(cols[:-1])] + [str(i % 2)] for i in range(4)]
    lines = [','.join(r) + '\n' for r in rows]
    res = C08.drive_task(lines, 1, len(rows), heuristic='MI-numba-3mr', cols=cols, scorefn=t_score(variant),
                         extra=['--interaction_order', '2', '--include_cardinality_in_feature_names', 'False', '--combination_number_upper_bound', '10000'])
    if '3mr' not in res:
        return f'3mr_ranks.tsv was not written (exit={res.get("exit")})'
    trip = {(a, b): float(s) for a, b, s in res['ranks']}
    REL = ' AND_REL '

    def norm(d):
        lo, hi = min(d.values()), max(d.values())
        return {k: (v - lo) / (hi - lo) for k, v in d.items()}
    relevance = norm({a: s for (a, b), s in trip.items() if b == 'label' and a != 'label' and REL not in a})
    rl = {a: s for (a, b), s in trip.items() if b == 'label' and REL in a}
    relation = {}
    for k, v in (norm(rl) if rl else {}).items():
        x, y = k.split(REL)
        relation[(x, y)] = relation[(y, x)] = v
    redundancy = norm({(a, b): s for (a, b), s in trip.items() if a != 'label' and b != 'label' and REL not in a and REL not in b})
    feats = sorted(relevance)      # every non-relation column scored against the label is a feature (constructed interaction columns included)
    order = [r[0] for r in res['3mr']]
    ranks = [int(r[1]) for r in res['3mr']]
    if sorted(order) != sorted(feats) or ranks != list(range(1, len(feats) + 1)):
        return f'3mr_ranks.tsv is not a ranking 1..n of the features: {res["3mr"]}'
    if relevance[order[0]] < max(relevance.values()) - 1e-9:
        return f'first feature {order[0]} is not of maximal relevance'
    for pos in range(1, len(order)):
        prev = order[:pos]

        def imp(g):
            return relevance[g] - statistics.median([redundancy.get((p_, g), 0) for p_ in prev]) + statistics.median([relation.get((p_, g), 0) for p_ in prev])
        best = max(order[pos:], key=imp)
        if imp(order[pos]) < imp(best) - 1e-9:
            return f'3mr_ranks.tsv position {pos + 1} holds {order[pos]} (objective {imp(order[pos]):.6f} from the scores in pairwise_ranks.tsv) although {best} reaches {imp(best):.6f}'
    return None


def run_task(job):
    st = {}
    loader.record_functions('outrank/task_ranking.py', ['outrank_task_conduct_ranking'])
    loader.record_functions('outrank/algorithms/importance_estimator.py', ['rank_features_3MR'])

    def setup(ctx):
        st['v'], st['n'] = z3.Int('variant'), z3.Int('nfeat')
        ctx.assume(st['v'] >= 0, st['v'] < T_VARIANTS, st['n'] >= 3, st['n'] <= 5)
        for k, v in job['pins'].items():
            ctx.assume(z3.Int(k) == v)

    def body(ctx, out):
        v, n = int(symx.SInt(st['v'], 0, T_VARIANTS - 1)), int(symx.SInt(st['n'], 3, 5))
        w = {'cond': 'task', 'variant': v, 'nfeat': n}
        try:
            p = t_problem(v, n)
        except Exception as e:
            import traceback
            tb = traceback.extract_tb(e.__traceback__)[-1]
            p = f'{type(e).__name__}: {e} ({tb.name}:{tb.lineno})'
        if p or out.twin:
            out.concrete_fail(w, p or 'twin')
        else:
            out.concrete_ok()
        out.sample(w)
    return hutil.run_symx(job, setup, body)


def jobs(tier):
    import pandas  # noqa: imported once in the parent so forked jobs inherit it
    out = [{'cond': 'task', 'pins': {'nfeat': n}, 'weight': 10, 'label': f'ranking task, MI-numba-3mr, interaction order 2, {n} features'} for n in (3, 4, 5)]
    for n, strat in BOUNDS[tier]:
        grid = [(a, b) for a in GRID for b in GRID]
        if n >= 4:
            grid = [(F(1), F(1)), (F(1), F(1, 2)), (F(2), F(0)), (F(1, 2), F(2))]
        for a, b in grid:
            # cover of the domain by "feature i has maximal relevance" (overlapping on ties, union = everything)
            for first in (range(n) if (n >= 5 or (n == 4 and strat == 'median')) else (None,)):
                out.append({'cond': 'greedy', 'n': n, 'strategy': strat, 'alpha': str(a), 'beta': str(b), 'sparse': True, 'first': first,
                            'weight': math.factorial(n) * (30 if strat == 'median' else 1), 'label': f'n={n},{strat},a={a},b={b},argmax={first}'})
    return out


def run_job(job):
    if job['cond'] == 'task':
        return run_task(job)
    n, strat, sparse = job['n'], job['strategy'], job['sparse']
    alpha, beta = F(job['alpha']), F(job['beta'])
    rank = load_fn()
    feats = [f'f{i}' for i in range(n)]
    pairs = [(a, b) for a in feats for b in feats if a != b]
    st = {}

    def setup(ctx):
        st['rel'] = {f: z3.Real(f'rel_{f}') for f in feats}
        st['red'] = {p: z3.Real(f'red_{p[0]}_{p[1]}') for p in pairs}
        st['rla'] = {p: z3.Real(f'rla_{p[0]}_{p[1]}') for p in pairs}
        st['mred'] = {p: z3.Bool(f'mred_{p[0]}_{p[1]}') for p in pairs}
        st['mrla'] = {p: z3.Bool(f'mrla_{p[0]}_{p[1]}') for p in pairs}
        if job.get('first') is not None:
            fi = feats[job['first']]
            for f in feats:
                ctx.assume(st['rel'][fi] >= st['rel'][f])

    def wit(m):
        def val(v):
            r = m.eval(v, model_completion=True)
            return str(F(r.numerator_as_long(), r.denominator_as_long()))
        return {'cond': 'greedy', 'n': n, 'strategy': strat, 'alpha': str(alpha), 'beta': str(beta),
                'rel': {f: val(v) for f, v in st['rel'].items()},
                'red': {f'{a}|{b}': val(v) for (a, b), v in st['red'].items() if not z3.is_true(m.eval(st['mred'][(a, b)], model_completion=True))},
                'rla': {f'{a}|{b}': val(v) for (a, b), v in st['rla'].items() if not z3.is_true(m.eval(st['mrla'][(a, b)], model_completion=True))}}

    def zagg(vals):
        if strat == 'sum':
            return z3.Sum(vals) if len(vals) > 1 else vals[0]
        if strat == 'mean':
            return (z3.Sum(vals) if len(vals) > 1 else vals[0]) / len(vals)
        # median as a z3 term: the k-th smallest via counting
        k = len(vals)
        if k == 1:
            return vals[0]
        med = z3.Real(f'med!{id(vals)}')
        return None

    def body(ctx, out):
        rel = {k: SReal(z=v) for k, v in st['rel'].items()}
        red, rla = {}, {}
        # a dictionary in which every entry may be missing: get(k, default) merges (missing ? default : value), no fork
        red = SparseDict({p: (st['mred'][p], SReal(z=st['red'][p])) for p in pairs})
        rla = SparseDict({p: (st['mrla'][p], SReal(z=st['rla'][p])) for p in pairs})
        df = rank(rel, red, rla, strat, alpha, beta)
        order = df['Feature'].tolist()
        ranks = df['3MR_Ranking'].tolist()
        bad = []
        if sorted(order) != sorted(feats) or ranks != list(range(1, n + 1)):
            bad.append(z3.BoolVal(True))
        else:
            for f in feats:
                bad.append(st['rel'][f] > st['rel'][order[0]])

            def term(d, p):
                miss, v = d.ent[p]
                return z3.If(miss, z3.RealVal(0), v.z)

            def imp_terms(g, prev):
                return [term(red, (p, g)) for p in prev], [term(rla, (p, g)) for p in prev]
            for pos in range(1, n):
                chosen, prev = order[pos], order[:pos]
                if strat in ('sum', 'mean'):
                    def imp(g):
                        a_, b_ = imp_terms(g, prev)
                        sa, sb = z3.Sum(a_) if len(a_) > 1 else a_[0], z3.Sum(b_) if len(b_) > 1 else b_[0]
                        if strat == 'mean':
                            sa, sb = sa / len(a_), sb / len(b_)
                        return st['rel'][g] - z3.RealVal(str(alpha)) * sa + z3.RealVal(str(beta)) * sb
                    for g in order[pos + 1:]:
                        bad.append(imp(g) > imp(chosen))
                else:
                    # median: characterise m = median(vals) by order statistics (independent of the code's sort)
                    def med(vals, tag):
                        k = len(vals)
                        m_ = z3.Real(f'med_{tag}')
                        le = [z3.If(v <= m_, 1, 0) for v in vals]
                        ge = [z3.If(v >= m_, 1, 0) for v in vals]
                        if k % 2:
                            c = z3.And(z3.Sum(le) >= (k + 1) // 2, z3.Sum(ge) >= (k + 1) // 2, z3.Or([m_ == v for v in vals]))
                            return m_, c
                        lo, hi = z3.Real(f'lo_{tag}'), z3.Real(f'hi_{tag}')
                        c = z3.And(m_ == (lo + hi) / 2, lo <= hi, z3.Or([lo == v for v in vals]), z3.Or([hi == v for v in vals]),
                                   z3.Sum([z3.If(v <= lo, 1, 0) for v in vals]) >= k // 2, z3.Sum([z3.If(v >= lo, 1, 0) for v in vals]) >= k // 2 + 1,
                                   z3.Sum([z3.If(v <= hi, 1, 0) for v in vals]) >= k // 2 + 1, z3.Sum([z3.If(v >= hi, 1, 0) for v in vals]) >= k // 2)
                        return m_, c
                    cs = []

                    def imp(g):
                        a_, b_ = imp_terms(g, prev)
                        ma, ca = med(a_, f'a_{pos}_{g}')
                        mb, cb = med(b_, f'b_{pos}_{g}')
                        cs.extend([ca, cb])
                        return st['rel'][g] - z3.RealVal(str(alpha)) * ma + z3.RealVal(str(beta)) * mb
                    ic = imp(chosen)
                    for g in order[pos + 1:]:
                        ig = imp(g)
                        bad.append(z3.And(z3.And(cs), ig > ic))
        out.never(ctx, z3.Or(bad), wit, 'ranking is not a greedy-optimal permutation')
        out.sample({'order': order, 'strategy': strat, 'decisions': len(ctx.trace)})
    return hutil.run_symx(job, setup, body)


def replay(w):
    if w.get('cond') == 'task':
        try:
            p = t_problem(w['variant'], w['nfeat'])
        except Exception as e:
            p = f'{type(e).__name__}: {e}'
        if p:
            return {'reproduced': True, 'signature': 'C17:task:' + ('exception' if 'Error' in p.split(':')[0] else 'greedy'), 'what': f'ranking task with MI-numba-3mr, interaction order 2, {w["nfeat"]} features (score variant {w["variant"]}): {p}'}
        return {'reproduced': False, 'what': '3mr_ranks.tsv is greedy-optimal for the scores in pairwise_ranks.tsv'}
    loader.use_repo_on_syspath()
    import statistics
    from outrank.algorithms.importance_estimator import rank_features_3MR
    rel = {k: float(F(v)) for k, v in w['rel'].items()}
    red = {tuple(k.split('|')): float(F(v)) for k, v in w['red'].items()}
    rla = {tuple(k.split('|')): float(F(v)) for k, v in w['rla'].items()}
    alpha, beta, strat = float(F(w['alpha'])), float(F(w['beta'])), w['strategy']
    df = rank_features_3MR(rel, red, rla, strat, alpha, beta)
    order, ranks = df['Feature'].tolist(), df['3MR_Ranking'].tolist()
    feats = sorted(rel)
    agg = {'median': statistics.median, 'mean': statistics.fmean, 'sum': sum}[strat]
    probs = []
    if sorted(order) != feats or ranks != list(range(1, len(feats) + 1)):
        probs.append(f'not a permutation with ranks 1..n: {order} {ranks}')
    else:
        if rel[order[0]] < max(rel.values()) - 1e-12:
            probs.append(f'first feature {order[0]} is not of maximal relevance')
        for pos in range(1, len(order)):
            prev = order[:pos]
            imp = lambda g: rel[g] - alpha * agg([red.get((p, g), 0) for p in prev]) + beta * agg([rla.get((p, g), 0) for p in prev])
            best = max(imp(g) for g in order[pos:])
            if imp(order[pos]) < best - 1e-9:
                probs.append(f'position {pos + 1}: {order[pos]} has importance {imp(order[pos]):.6g} but a remaining feature has {best:.6g}')
    if probs:
        return {'reproduced': True, 'signature': 'C17:greedy', 'what': f'{strat}, alpha={alpha}, beta={beta}, rel={rel}, red={ {"|".join(k): v for k, v in red.items()} }, rla={ {"|".join(k): v for k, v in rla.items()} }: ' + '; '.join(probs)}
    return {'reproduced': False, 'what': f'order {order} is greedy-optimal'}
