"""C19 - synthetic categorical data respects its declared shape, domains and seed (symx: every random draw decided by the solver)."""
from __future__ import annotations

import os
import types

import numpy as np
import z3

from harness import gen as G
from vlib import hutil, loader, symx
from vlib.symx import SInt

ID = 'C19'

MANIFEST = {
    'engine': 'symx',
    'text': 'Bounded symbolic exploration of the real generator source (generate_data, _configure_generate_feature, _generate_feature, generate_random_matrix, the generator task) running on the real numpy, with numpy.random replaced by a stub whose every draw (choice, randint, shuffle) is decided by the solver: the sizes, cardinality, low, ensure_rep, random_values, the structure description (chosen from templates mixing single indices, index lists, cardinalities, value lists and value/frequency pairs) and ALL outcomes of all draws are explored; on every path the shape/int32 type, per-column domain membership, placement of structured features at their declared indices and the ensure_rep clause are compared with the declaration. Seed clause: RNG state = (seed, counter) and a draw is a function of the state, so "same seed => same data" is checked across an unrelated intervening draw, and a forgotten seed() yields a counterexample. Naive generator: the needle cells are symbolic over boundary values; label must be one fixed function of the needle cell alone. Structure templates include one-element value lists (list and numpy array); random domains are also drawn from bounds wider than 2^16 candidates (representative draws) and with upper bound 0; numpy.random.default_rng is modelled as a generator of its own (seeded: a function of its seed; unseeded: fresh entropy that numpy.random.seed does not determine).',
    'note': 'n_features<=3, n_samples<=3, cardinality<=3 (quick); the shape of the sampling distribution is not claimed (only: drawn values have positive probability); unsorted structure indices are outside (documented usage); naive generator: only the needle column cells are symbolic, over {10, 39, 40, 99}.',
    'technique': 'solver-driven bounded exploration of the real Python code on real numpy with a nondeterministic RNG stub (every draw a solver decision; coverage certificate by decision-tree audit)',
}

WIDE_SPAN = 70000      # random_values over bounds wider than 2^16 candidates

STRUCTS = [
    None,
    [(1, [100, 101])],
    [(0, 2)],
    [([0, 2], [200, 201, 202])],
    [(1, [[300, 301], [0.5, 0.5]])],
    [(0, [100, 101]), (2, 2)],
    [([1, 2], 2)],
    [(2, [[300, 301, 302], [0.2, 0.0, 0.8]])],
    [(1, [7])],                      # a value list of length one: the feature is the constant 7
    [(2, np.array([250]))],          # the same as a numpy array
    [(0, [[5], [1.0]])],             # one value with its frequency
]
BOUNDS = {'quick': {'feature': (3, 3), 'data': (3, 2), 'seed': (2, 2), 'naive': 2}, 'thorough': {'feature': (4, 3), 'data': (3, 3), 'seed': (3, 2), 'naive': 3}}
INFO = {
    'engine': 'symx + z3 (draws concretised by decisions) + real numpy',
    'explanation': 'see level text',
    'bounds': {t: {'feature': f'size<={b["feature"][0]}, cardinality<={b["feature"][1]}, modes default/explicit values/values+frequencies/random_values, ensure_rep',
                   'data': f'{b["data"][0]} features x <= {b["data"][1]} samples, {len(STRUCTS)} structure templates', 'seed': 'two runs with the same seed around an unrelated draw',
                   'naive': f'{b["naive"]} rows x 31 columns, needle cells over {{10,39,40,99}}', 'task': 'data_generator task: 31..34 features x 1..4 rows (real RNG, seed 123)'} for t, b in BOUNDS.items()},
    'outside': ['draws from ranges wider than 64 candidates are explored through representatives (first, second, last) only', 'shape of the sampling distribution', 'unsorted structure indices', 'larger sizes', 'data/seed conditions: the draw selecting the mode of the distribution is fixed and shuffles are identity/reversal only (both irrelevant to domains and placement; all outcomes are explored in the feature condition)'],
    'assumptions': ['numpy.random replaced by the RNG stub: choice returns elements of positive probability, shuffle any permutation, randint any value in range'],
    'job_timeout': {'quick': 300, 'thorough': 2400},
    'max_replays': 8, 'max_replays_per_cond': 3,
}


def expected_domains(nf, card, low, struct):
    dom = [set(range(low, low + card)) for _ in range(nf)]
    if struct:
        for ixs, attr in struct:
            for ix in (ixs if isinstance(ixs, list) else [ixs]):
                if isinstance(attr, int):
                    dom[ix] = set(range(low, low + attr))
                elif isinstance(attr, list) and isinstance(attr[0], list):
                    dom[ix] = set(attr[0])     # the declared value list (a value with frequency 0 is still part of the declaration)
                else:
                    dom[ix] = set(int(v) for v in attr)
    return dom


def jobs(tier):
    b = BOUNDS[tier]
    out = []
    for mode in ('default', 'values', 'freq', 'random', 'random-wide', 'random-upto0'):
        for rep in (False, True):
            for sz in range(1, (b['feature'][0] if mode not in ('random-wide', 'random-upto0') else 2) + 1):
                for cd in range(1, b['feature'][1] + 1):
                    for lw in (0, 1):
                        out.append({'cond': 'feature', 'mode': mode, 'rep': rep, 'pins': {'size': sz, 'card': cd, 'low': lw}, 'weight': (cd + 1) ** sz * 6 ** sz, 'label': f'{mode},ensure_rep={rep},size={sz},card={cd},low={lw}'})
    for si in range(len(STRUCTS)):
        for rep in (False, True):
            out.append({'cond': 'data', 'struct': si, 'rep': rep, 'pins': {}, 'weight': 500, 'label': f'structure {si},ensure_rep={rep}'})
    for si in (0, 1, 4):
        out.append({'cond': 'seed', 'struct': si, 'pins': {}, 'weight': 300, 'label': f'structure {si}'})
        if si in (0, 2):
            out.append({'cond': 'seed', 'struct': si, 'wide': True, 'pins': {'card': 1}, 'weight': 300, 'label': f'structure {si}, random values from a range of {WIDE_SPAN + 1}'})
    out.append({'cond': 'naive', 'pins': {}, 'weight': 100, 'label': 'naive'})
    out.append({'cond': 'task', 'pins': {}, 'weight': 50, 'label': 'generator task'})
    return out


def drive_task(nf, nr):
    """the real data_generator task (real CLI parser defaults, real naive generator, real pandas CSV emission) in a scratch directory"""
    import shutil
    import tempfile
    import pandas as pd
    from harness import pipeline as PL
    loader.use_repo_on_syspath()
    import outrank.task_generators as tg
    d = tempfile.mkdtemp(prefix='c19-', dir='/var/tmp')
    cwd = os.getcwd()
    os.chdir(d)
    try:
        args = types.SimpleNamespace(generator_type='naive', num_synthetic_features=nf, num_synthetic_rows=nr, output_synthetic_df_name='synth')
        np.random.seed(123)
        tg.outrank_task_generate_data_set(args)
        df = pd.read_csv(os.path.join(d, 'synth', 'data.csv'))
        np.random.seed(123)
        before = np.random.randint(10, 100, size=(nr, nf))
    finally:
        os.chdir(cwd)
        shutil.rmtree(d, ignore_errors=True)
    probs = []
    if list(df.columns) != [f'f{i}' for i in range(nf)] + ['label'] or df.shape != (nr, nf + 1):
        probs.append(f'data.csv has columns/shape {list(df.columns)[:3]}.../{df.shape}, requested {nf} features x {nr} rows + label')
    else:
        exp = [0 if v < 40 else 1 for v in before[:, 30]]
        if df['label'].tolist() != exp:
            probs.append('label column of data.csv is not the fixed function (needle < 40 -> 0 else 1) of the needle feature')
        others = [c for c in range(nf) if c != 30]
        if (df[[f'f{c}' for c in others]].values != before[:, others]).any():
            probs.append('feature columns of data.csv differ from the generated matrix')
    return probs


def run_task(job):
    loader.record_functions('outrank/task_generators.py', ['outrank_task_generate_data_set'])
    loader.record_functions('outrank/algorithms/synthetic_data_generators/generator_naive.py', ['generate_random_matrix'])
    st = {}

    def setup(ctx):
        st['nf'], st['nr'] = z3.Int('nf'), z3.Int('nr')
        ctx.assume(st['nf'] >= 31, st['nf'] <= 34, st['nr'] >= 1, st['nr'] <= 4)

    def body(ctx, out):
        nf, nr = int(SInt(st['nf'], 31, 34)), int(SInt(st['nr'], 1, 4))
        try:
            probs = drive_task(nf, nr)
        except Exception as e:
            probs = [f'{type(e).__name__}: {e}']
        w = {'cond': 'task', 'nf': nf, 'nr': nr}
        if probs or out.twin:
            out.concrete_fail(w, probs[0] if probs else 'twin')
        else:
            out.concrete_ok()
        out.sample(w)
    return hutil.run_symx(job, setup, body)


def run_job(job):
    if job['cond'] == 'task':
        return run_task(job)
    cond, tier = job['cond'], job['tier']
    b = BOUNDS[tier]
    CC = G.load_cc()
    st = {}

    def setup(ctx):
        st['size'] = z3.Int('size')
        st['card'] = z3.Int('card')
        st['low'] = z3.Int('low')
        mx = b['feature'][0] if cond == 'feature' else (b['data'][1] if cond == 'data' else b['seed'][1])
        for k_, v_ in job['pins'].items():
            ctx.assume(z3.Int(k_) == v_)
        ctx.assume(st['size'] >= 1, st['size'] <= mx, st['card'] >= 1, st['card'] <= (b['feature'][1] if cond == 'feature' else 2), st['low'] >= 0, st['low'] <= (1 if cond == 'feature' else 0))

    def body(ctx, out):
        G.RNGI.reset_path()
        G.RNG.CELL = None
        G.RNG.FIX_MODE_DRAW = cond in ('data', 'seed')
        G.RNG.FEW_SHUFFLES = cond in ('data', 'seed')
        cc = CC(seed=11 if cond == 'seed' else 7)      # the real constructor (it seeds the generator)
        probs = []
        if cond == 'naive':
            ns = G.load_naive()
            rows = b['naive']

            def cell(rng, i, shape, low, high):
                r, c = divmod(i, shape[1])
                if c == 30:
                    return [10, 39, 40, 99][rng._draw(4, 'needle')]
                return 10 + (i * 37) % 90
            G.RNG.CELL = cell
            before = {}
            orig_draw = G.RNGI._draw
            sample, target = ns['generate_random_matrix'](31, rows)
            needles = [v for t, v in G.RNGI.log if t == 'needle']
            w = {'cond': 'naive', 'needles': needles}
            vals = [[10, 39, 40, 99][k] for k in needles]
            exp = [0 if v < 40 else 1 for v in vals]
            if sample.shape != (rows, 31) or list(target) != exp:
                probs.append(f'label {list(target)} is not the fixed function (needle < 40 -> 0 else 1) of the needle values {vals}')
            if any(int(sample[r, c]) != 10 + ((r * 31 + c) * 37) % 90 for r in range(rows) for c in range(31) if c != 30):
                probs.append('a non-needle cell was changed')
        else:
            size = int(SInt(st['size'], 1, 9))
            card = int(SInt(st['card'], 1, 9))
            low = int(SInt(st['low'], 0, 1))
            if cond == 'feature':
                mode, rep = job['mode'], job['rep']
                w = {'cond': cond, 'mode': mode, 'rep': rep, 'size': size, 'card': card, 'low': low}
                if mode == 'default':
                    x = cc._generate_feature(size, cardinality=card, ensure_rep=rep, low=low)
                    dom = set(range(low, low + card))
                elif mode == 'values':
                    vec = [100 + 3 * i for i in range(card)]
                    x = cc._generate_feature(size, vec=vec, ensure_rep=rep)
                    dom = set(vec)
                elif mode == 'freq':
                    vec = [100 + 3 * i for i in range(card)]
                    p = [1.0 / card] * card
                    x = cc._generate_feature(size, vec=vec, ensure_rep=rep, p=p)
                    dom = set(vec)
                elif mode == 'random-upto0':
                    x = cc._generate_feature(size, cardinality=card, ensure_rep=rep, random_values=True, low=-card - low, high=0)      # the upper bound is 0
                    dom = set(range(-card - low, 1))
                elif mode == 'random-wide':
                    x = cc._generate_feature(size, cardinality=card, ensure_rep=rep, random_values=True, low=low, high=low + WIDE_SPAN)
                    dom = range(low, low + WIDE_SPAN + 1)
                else:
                    x = cc._generate_feature(size, cardinality=card, ensure_rep=rep, random_values=True, low=low, high=low + card)
                    dom = set(range(low, low + card + 1))
                w['draws'] = [v for _, v in G.RNGI.log]
                if len(x) != size or str(x.dtype) != 'int32':
                    probs.append(f'feature has length {len(x)} / dtype {x.dtype}, requested {size} / int32')
                if not all(int(v) in dom for v in x):
                    probs.append(f'values {sorted(set(int(v) for v in x))} outside the declared domain {sorted(dom) if len(dom) < 50 else dom}')
                used = set(int(v) for v in x)
                if mode in ('random', 'random-wide', 'random-upto0'):
                    n_dom = card
                    if rep and n_dom <= size and len(used) < n_dom:
                        probs.append(f'ensure_rep: only {len(used)} of the {n_dom} drawn values occur in {size} samples')
                elif rep and len(dom) <= size and used != dom:
                    probs.append(f'ensure_rep: values {sorted(dom - used)} of the domain never occur although {size} samples >= {len(dom)} values')
            else:
                struct = STRUCTS[job['struct']]
                nf = b['data'][0]
                rep = job.get('rep', False)
                w = {'cond': cond, 'struct': job['struct'], 'rep': rep, 'size': size, 'card': card, 'low': low}
                if cond == 'data':
                    X = cc.generate_data(nf, size, cardinality=card, structure=struct, ensure_rep=rep, low=low, seed=7)
                    w['draws'] = [v for _, v in G.RNGI.log]
                    dom = expected_domains(nf, card, low, struct)
                    if X.shape != (size, nf) or str(X.dtype) != 'int32':
                        probs.append(f'shape {X.shape} dtype {X.dtype}, requested ({size}, {nf}) int32')
                    else:
                        for j in range(nf):
                            col = set(int(v) for v in X[:, j])
                            if not col <= dom[j]:
                                probs.append(f'column {j} holds {sorted(col)}, declared domain {sorted(dom[j])}')
                            elif rep and len(dom[j]) <= size and col != dom[j]:
                                probs.append(f'ensure_rep: column {j} misses {sorted(dom[j] - col)} although {size} samples >= {len(dom[j])} values')
                else:
                    kw = dict(random_values=True, high=low + WIDE_SPAN) if job.get('wide') else {}
                    w['wide'] = bool(job.get('wide'))
                    X1 = cc.generate_data(nf, size, cardinality=card, structure=struct, low=low, seed=11, **kw)
                    G.RNGI.randint(5)          # an unrelated draw in between
                    X2 = cc.generate_data(nf, size, cardinality=card, structure=struct, low=low, seed=11, **kw)
                    w['draws'] = [v for _, v in G.RNGI.log]
                    if X1.shape != X2.shape or (X1 != X2).any():
                        probs.append(f'same seed and arguments gave {X1.tolist()} and then {X2.tolist()}')
        if probs or out.twin:
            out.concrete_fail(w, probs[0] if probs else 'twin')
        else:
            out.concrete_ok()
        out.sample({k: v for k, v in w.items() if k != 'draws'})
    return hutil.run_symx(job, setup, body)


def replay(w):
    """real numpy.random: search seeds for a run that shows the same violation (the draws of the witness are what the solver chose;
    the real generator reaches them for some seed)"""
    loader.use_repo_on_syspath()
    from outrank.algorithms.synthetic_data_generators.cc_generator import CategoricalClassification as CC
    c = w['cond']
    if c == 'task':
        try:
            probs = drive_task(w['nf'], w['nr'])
        except Exception as e:
            return {'reproduced': True, 'signature': f'C19:task:exception:{type(e).__name__}', 'what': f'data_generator task with {w["nf"]} features x {w["nr"]} rows: {type(e).__name__}: {e}'}
        if probs:
            return {'reproduced': True, 'signature': 'C19:task', 'what': f'data_generator task with {w["nf"]} features x {w["nr"]} rows: {probs[0]}'}
        return {'reproduced': False, 'what': 'data.csv as specified'}
    if c == 'naive':
        from outrank.algorithms.synthetic_data_generators import generator_naive as gn
        for seed in range(50):
            np.random.seed(seed)
            s0 = np.random.randint(10, 100, size=(50, 31))
            np.random.seed(seed)
            sample, target = gn.generate_random_matrix(31, 50)
            exp = [0 if v < 40 else 1 for v in s0[:, 30]]
            if list(target) != exp:
                return {'reproduced': True, 'signature': 'C19:naive-label', 'what': f'seed {seed}: label is not (needle < 40 -> 0 else 1) of column 30'}
        return {'reproduced': False, 'what': 'label is the fixed function of the needle'}
    for seed in range(300):
        cc = CC(seed=seed)
        size, card, low = w['size'], w['card'], w['low']
        if c == 'feature':
            np.random.seed(seed)
            mode, rep = w['mode'], w['rep']
            if mode == 'default':
                x, dom = cc._generate_feature(size, cardinality=card, ensure_rep=rep, low=low), set(range(low, low + card))
            elif mode in ('values', 'freq'):
                vec = [100 + 3 * i for i in range(card)]
                x = cc._generate_feature(size, vec=vec, ensure_rep=rep, p=([1.0 / card] * card if mode == 'freq' else None))
                dom = set(vec)
            elif mode == 'random-upto0':
                x = cc._generate_feature(size, cardinality=card, ensure_rep=rep, random_values=True, low=-card - low, high=0)
                dom = None
                if any(not (-card - low <= int(v) <= 0) for v in x):
                    return {'reproduced': True, 'signature': 'C19:feature-domain', 'what': f'seed {seed}: _generate_feature(random_values=True, low={-card - low}, high=0, cardinality={card}) -> {x.tolist()} outside [{-card - low}, 0]'}
            elif mode == 'random-wide':
                x = cc._generate_feature(size, cardinality=card, ensure_rep=rep, random_values=True, low=low, high=low + WIDE_SPAN)
                dom = None
                if any(not (low <= int(v) <= low + WIDE_SPAN) for v in x):
                    return {'reproduced': True, 'signature': 'C19:feature-domain', 'what': f'seed {seed}: _generate_feature({w}) -> {x.tolist()} outside [{low}, {low + WIDE_SPAN}]'}
            else:
                x = cc._generate_feature(size, cardinality=card, ensure_rep=rep, random_values=True, low=low, high=low + card)
                dom = None
            used = set(int(v) for v in x)
            if len(x) != size or str(x.dtype) != 'int32' or (dom is not None and not used <= dom):
                return {'reproduced': True, 'signature': 'C19:feature-domain', 'what': f'seed {seed}: _generate_feature({w}) -> {x.tolist()} ({x.dtype})'}
            nd = len(dom) if dom is not None else card
            if rep and nd <= size and ((dom is not None and used != dom) or (dom is None and len(used) < nd)):
                sig = 'C19:ensure-rep-at-equality' if nd == size else 'C19:ensure-rep'
                return {'reproduced': True, 'signature': sig, 'what': f'seed {seed}: ensure_rep with {size} samples and {nd} domain values ({mode}): generated {x.tolist()} misses a value'}
        else:
            struct = STRUCTS[w['struct']]
            nf = 3
            if c == 'data':
                X = cc.generate_data(nf, size, cardinality=card, structure=struct, ensure_rep=w['rep'], low=low, seed=seed)
                dom = expected_domains(nf, card, low, struct)
                if X.shape != (size, nf) or str(X.dtype) != 'int32':
                    return {'reproduced': True, 'signature': 'C19:shape', 'what': f'seed {seed}: shape {X.shape} dtype {X.dtype}'}
                for j in range(nf):
                    col = set(int(v) for v in X[:, j])
                    if not col <= dom[j]:
                        return {'reproduced': True, 'signature': 'C19:column-domain', 'what': f'seed {seed}, structure {struct}: column {j} holds {sorted(col)}, declared domain {sorted(dom[j])}'}
                    if w['rep'] and len(dom[j]) <= size and col != dom[j]:
                        sig = 'C19:ensure-rep-at-equality' if len(dom[j]) == size else 'C19:ensure-rep'
                        return {'reproduced': True, 'signature': sig, 'what': f'seed {seed}, structure {struct}: ensure_rep, column {j} = {sorted(col)} misses {sorted(dom[j] - col)} ({size} samples, {len(dom[j])} values)'}
            else:
                kw = dict(random_values=True, high=low + WIDE_SPAN) if w.get('wide') else {}
                X1 = cc.generate_data(nf, size, cardinality=card, structure=struct, low=low, seed=seed, **kw)
                np.random.randint(5)
                X2 = cc.generate_data(nf, size, cardinality=card, structure=struct, low=low, seed=seed, **kw)
                if (X1 != X2).any():
                    return {'reproduced': True, 'signature': 'C19:seed', 'what': f'seed {seed}: two calls of generate_data({nf}, {size}, cardinality={card}, structure={struct}, low={low}{", random_values=True, high=" + str(low + WIDE_SPAN) if kw else ""}, seed={seed}) give {X1.tolist()} and {X2.tolist()}'}
    return {'reproduced': False, 'what': 'not reproduced with seeds 0..299'}
