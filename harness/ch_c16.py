"""CrossHair conditions for C16 (line parsers keep every field in its column and never mis-align)"""
from __future__ import annotations

import csv
import io
import types

from harness import ch_common as CM
import os as _os

from vlib import chsupport

CU = CM.core_utils()
TAB, NL = chr(9), chr(10)
HDR = ['label', 'f1', 'f2']
FW = {'A': 'f1', 'B': 'f2'}


# thorough tier: one more symbolic character per string (CH_EXTRA=1 is set by the runner)
EXTRA = int(_os.environ.get('CH_EXTRA', '0'))

def A(src):
    return types.SimpleNamespace(data_source=src)


def seq_eq(a, b) -> bool:
    """element-wise comparison of two lists of (str or None)"""
    if len(a) != len(b):
        return False
    for i in range(len(a)):
        if a[i] is None or b[i] is None:
            if not (a[i] is None and b[i] is None):
                return False
        else:
            if len(a[i]) != len(b[i]):
                return False
            for j in range(len(a[i])):
                if a[i][j] != b[i][j]:
                    return False
    return True


def tsv_first_last(c0: str, c2: str) -> bool:
    """
    pre: len(c0) <= 2 + EXTRA and len(c2) <= 2 + EXTRA
    pre: all(ch in 'a "' + chr(160) for ch in c0 + c2)
    post: _
    """
    chsupport.tick()
    cells = [c0, 'mid', c2]
    return seq_eq(CU['generic_line_parser'](TAB.join(cells) + NL, TAB, A('ob-raw-dump'), None, HDR), cells)


def tsv_middle(c1: str) -> bool:
    """
    pre: len(c1) <= 4 + EXTRA
    pre: all(ch in 'a "' + chr(160) for ch in c1)
    post: _
    """
    chsupport.tick()
    cells = ['x', c1, 'z']
    return seq_eq(CU['generic_line_parser'](TAB.join(cells) + NL, TAB, A('ob-raw-dump'), None, HDR), cells)


def tsv_three_small(c0: str, c1: str, c2: str) -> bool:
    """
    pre: len(c0) <= 1 + EXTRA and len(c1) <= 1 + EXTRA and len(c2) <= 1 + EXTRA
    pre: all(ch in 'a ' for ch in c0 + c1 + c2)
    post: _
    """
    chsupport.tick()
    cells = [c0, c1, c2]
    return seq_eq(CU['generic_line_parser'](TAB.join(cells) + NL, TAB, A('ob-raw-dump'), None, HDR), cells)


def tsv_wrong_count(c0: str, c1: str, extra: bool) -> bool:
    """
    pre: len(c0) <= 1 + EXTRA and len(c1) <= 1 + EXTRA
    pre: all(ch in 'a ' for ch in c0 + c1)
    post: _
    """
    chsupport.tick()
    cells = [c0, c1] + (['q', 'r'] if extra else [])
    got = CU['generic_line_parser'](TAB.join(cells) + NL, TAB, A('ob-raw-dump'), None, HDR)
    return len(got) != len(HDR)          # a row with 2 or 4 fields is never taken for a 3-field row


def csv_roundtrip(c0: str, c1: str, kind: bool) -> bool:
    """
    pre: len(c0) <= 2 and len(c1) <= 2
    pre: all(ch in 'a," ' for ch in c0 + c1)
    post: _
    """
    chsupport.tick()
    cells = [c0, 'm', c1]
    buf = io.StringIO()
    csv.writer(buf, lineterminator=NL).writerow(cells)
    got = CU['generic_line_parser'](buf.getvalue(), ',', A('csv-raw' if kind else 'ob-csv'), None, HDR)
    return seq_eq(got, cells)


def csv_wrong_count(c0: str, extra: bool) -> bool:
    """
    pre: len(c0) <= 3 + EXTRA
    pre: all(ch in 'a,"' for ch in c0)
    post: _
    """
    chsupport.tick()
    cells = [c0, 'm'] + (['q', 'r'] if extra else [])
    buf = io.StringIO()
    csv.writer(buf, lineterminator=NL).writerow(cells)
    got = CU['generic_line_parser'](buf.getvalue(), ',', A('csv-raw'), None, HDR)
    return len(got) != len(HDR)


def vw_two_tokens(t1: str, t2: str) -> bool:
    """
    pre: 1 <= len(t1) <= 2 + EXTRA and 1 <= len(t2) <= 2 + EXTRA
    pre: all(ch in 'ab_-1' for ch in t1 + t2)
    post: _
    """
    chsupport.tick()
    line = '1 |A ' + t1 + ' ' + t2 + ' |B b_x' + NL
    got = CU['generic_line_parser'](line, None, A('ob-vw'), FW, HDR)
    return seq_eq(got, ['1', (t1 + '-' + t2)[2:], 'x'])


def vw_absent_and_label(label: str, t: str, present: bool) -> bool:
    """
    pre: 1 <= len(label) <= 2 + EXTRA and 1 <= len(t) <= 2 + EXTRA
    pre: all(ch in '-1a' for ch in label) and all(ch in 'a_1' for ch in t)
    post: _
    """
    chsupport.tick()
    line = label + ' ' + ('|A ' + t + ' ' if present else '') + '|B b_y' + NL
    got = CU['generic_line_parser'](line, None, A('ob-vw'), FW, HDR)
    return seq_eq(got, [label, t[2:] if present else None, 'y'])


def vw_empty_namespace(t: str, a_state: int, b_state: int) -> bool:
    """
    pre: 1 <= len(t) <= 2 + EXTRA
    pre: all(ch in 'ab_' for ch in t)
    pre: 0 <= a_state <= 2 and 0 <= b_state <= 2
    post: _
    """
    chsupport.tick()
    # state 0: namespace absent, 1: present without tokens, 2: present with the token t
    def ns(name, st):
        return '' if st == 0 else ('|' + name + ' ' + (t + ' ' if st == 2 else ''))
    line = '1 ' + ns('A', a_state) + ns('B', b_state) + NL
    got = CU['generic_line_parser'](line, None, A('ob-vw'), FW, HDR)
    exp = lambda st: None if st == 0 else ('' if st == 1 else t[2:])
    return seq_eq(got, ['1', exp(a_state), exp(b_state)])


def vw_two_maps(t: str, first_swapped: bool) -> bool:
    """
    pre: 1 <= len(t) <= 3 + EXTRA
    pre: all(ch in 'ab_' for ch in t)
    post: _
    """
    chsupport.tick()
    # a history of two namespace maps with the SAME header (ids reassigned): every line follows the map it is parsed with
    M1, M2 = {'A': 'f1', 'B': 'f2'}, {'B': 'f1', 'A': 'f2'}
    line = '1 |A ' + t + ' |B b_z' + NL
    maps = [M2, M1] if first_swapped else [M1, M2]
    ok = True
    for m in maps:
        got = CU['generic_line_parser'](line, None, A('ob-vw'), m, HDR)
        exp = ['1', t[2:], 'z'] if m['A'] == 'f1' else ['1', 'z', t[2:]]
        ok = ok and seq_eq(got, exp)
    return ok


def vw_namespace_order(t: str, swapped: bool) -> bool:
    """
    pre: 1 <= len(t) <= 3 + EXTRA
    pre: all(ch in 'ab_' for ch in t)
    post: _
    """
    chsupport.tick()
    na, nb = '|A ' + t + ' ', '|B b_z '
    line = '-1 ' + ((nb + na) if swapped else (na + nb)) + NL
    got = CU['generic_line_parser'](line, None, A('ob-vw'), FW, HDR)
    return seq_eq(got, ['-1', t[2:], 'z'])


class _File:
    def __init__(self, lines):
        self.lines = lines

    def __enter__(self):
        return self

    def __exit__(self, *a):
        return False

    def __iter__(self):
        return iter(self.lines)


def _ns(lines):
    CU['open'] = lambda *a, **k: _File(lines)
    try:
        return CU['parse_namespace']('namespace.csv')
    finally:
        del CU['open']


def namespace_feature(feat: str, typed: int) -> bool:
    """
    pre: 1 <= len(feat) <= 3 + EXTRA
    pre: all(ch in 'fg2_' for ch in feat)
    pre: 0 <= typed <= 2
    post: _
    """
    chsupport.tick()
    t = ['', ',f32', ',generic'][typed]
    floats, mapping = _ns(['A,' + feat + t + NL, 'Z,zz,f32' + NL])
    ok = len(mapping) == 2 and mapping['A'] == feat and mapping['Z'] == 'zz'
    ok = ok and ('zz' in floats) and ((feat in floats) == (typed == 1 or feat == 'zz')) and len(floats) == (2 if (typed == 1 and feat != 'zz') else 1)
    return ok


def namespace_id(fid: str, typed: bool) -> bool:
    """
    pre: 1 <= len(fid) <= 3 + EXTRA
    pre: all(ch in 'AB1' for ch in fid)
    post: _
    """
    chsupport.tick()
    floats, mapping = _ns([fid + ',ff' + (',f32' if typed else '') + NL])
    return len(mapping) == 1 and mapping[fid] == 'ff' and (('ff' in floats) == typed) and len(floats) == (1 if typed else 0)

# --- vacuity twins (generated by mk_twins.py; same preconditions, postcondition negated) ---


def tsv_first_last_twin(c0: str, c2: str) -> bool:
    """
    pre: len(c0) <= 2 + EXTRA and len(c2) <= 2 + EXTRA
    pre: all(ch in 'a "' + chr(160) for ch in c0 + c2)
    post: not _
    """
    return tsv_first_last(c0, c2)


def tsv_middle_twin(c1: str) -> bool:
    """
    pre: len(c1) <= 4 + EXTRA
    pre: all(ch in 'a "' + chr(160) for ch in c1)
    post: not _
    """
    return tsv_middle(c1)


def tsv_three_small_twin(c0: str, c1: str, c2: str) -> bool:
    """
    pre: len(c0) <= 1 + EXTRA and len(c1) <= 1 + EXTRA and len(c2) <= 1 + EXTRA
    pre: all(ch in 'a ' for ch in c0 + c1 + c2)
    post: not _
    """
    return tsv_three_small(c0, c1, c2)


def tsv_wrong_count_twin(c0: str, c1: str, extra: bool) -> bool:
    """
    pre: len(c0) <= 1 + EXTRA and len(c1) <= 1 + EXTRA
    pre: all(ch in 'a ' for ch in c0 + c1)
    post: not _
    """
    return tsv_wrong_count(c0, c1, extra)


def csv_roundtrip_twin(c0: str, c1: str, kind: bool) -> bool:
    """
    pre: len(c0) <= 2 and len(c1) <= 2
    pre: all(ch in 'a," ' for ch in c0 + c1)
    post: not _
    """
    return csv_roundtrip(c0, c1, kind)


def csv_wrong_count_twin(c0: str, extra: bool) -> bool:
    """
    pre: len(c0) <= 3 + EXTRA
    pre: all(ch in 'a,"' for ch in c0)
    post: not _
    """
    return csv_wrong_count(c0, extra)


def vw_two_tokens_twin(t1: str, t2: str) -> bool:
    """
    pre: 1 <= len(t1) <= 2 + EXTRA and 1 <= len(t2) <= 2 + EXTRA
    pre: all(ch in 'ab_-1' for ch in t1 + t2)
    post: not _
    """
    return vw_two_tokens(t1, t2)


def vw_absent_and_label_twin(label: str, t: str, present: bool) -> bool:
    """
    pre: 1 <= len(label) <= 2 + EXTRA and 1 <= len(t) <= 2 + EXTRA
    pre: all(ch in '-1a' for ch in label) and all(ch in 'a_1' for ch in t)
    post: not _
    """
    return vw_absent_and_label(label, t, present)


def vw_empty_namespace_twin(t: str, a_state: int, b_state: int) -> bool:
    """
    pre: 1 <= len(t) <= 2 + EXTRA
    pre: all(ch in 'ab_' for ch in t)
    pre: 0 <= a_state <= 2 and 0 <= b_state <= 2
    post: not _
    """
    return vw_empty_namespace(t, a_state, b_state)


def vw_two_maps_twin(t: str, first_swapped: bool) -> bool:
    """
    pre: 1 <= len(t) <= 3 + EXTRA
    pre: all(ch in 'ab_' for ch in t)
    post: not _
    """
    return vw_two_maps(t, first_swapped)


def vw_namespace_order_twin(t: str, swapped: bool) -> bool:
    """
    pre: 1 <= len(t) <= 3 + EXTRA
    pre: all(ch in 'ab_' for ch in t)
    post: not _
    """
    return vw_namespace_order(t, swapped)


def namespace_feature_twin(feat: str, typed: int) -> bool:
    """
    pre: 1 <= len(feat) <= 3 + EXTRA
    pre: all(ch in 'fg2_' for ch in feat)
    pre: 0 <= typed <= 2
    post: not _
    """
    return namespace_feature(feat, typed)


def namespace_id_twin(fid: str, typed: bool) -> bool:
    """
    pre: 1 <= len(fid) <= 3 + EXTRA
    pre: all(ch in 'AB1' for ch in fid)
    post: not _
    """
    return namespace_id(fid, typed)
