"""shared by C19/C20: the generator source loaded from the working tree with the REAL numpy, except that every random draw is a
solver-decided value (RNG stub). RNG state = (seed, counter): seed(s) resets it, a draw is a function of the state, so two runs
from the same state see the same draws and a forgotten seed() shows up as two independent draws."""
from __future__ import annotations

import types

import numpy as np
import scipy.linalg  # noqa: imported with the real numpy before the generator source is loaded under the numpy proxy
import scipy.stats  # noqa
import sklearn.cluster  # noqa
import sklearn.utils  # noqa
import z3

from vlib import loader, symx
from vlib.symx import SInt


class RNG:
    def __init__(self):
        self.reset_path()

    def reset_path(self):
        _FRESH[0] = 0
        self.state = ('unseeded', 0)
        self.memo = {}
        self.log = []

    def seed(self, s=None):
        self.state = (int(s) if s is not None else 'unseeded', 0)

    def _draw(self, n, tag=''):
        """arbitrary integer in [0, n): decided by the solver, a function of the RNG state"""
        sid, k = self.state
        self.state = (sid, k + 1)
        key = (sid, k, n)
        if key not in self.memo:
            if n <= 1:
                v = 0
            elif n > WIDE:
                # a draw from a wide range: representatives only (first, second, last) - under-approximation, stated in the evidence
                e = symx.CTX.fresh_int('draw')
                symx.CTX.solver.add(e >= 0, e < 3)
                v = [0, 1, n - 1][SInt(e, 0, 2).concretize()]
            else:
                e = symx.CTX.fresh_int('draw')
                symx.CTX.solver.add(e >= 0, e < n)
                v = SInt(e, 0, n - 1).concretize()
            self.memo[key] = v
        self.log.append((tag, self.memo[key]))
        return self.memo[key]

    FIX_MODE_DRAW = False     # True: the scalar randint that only selects the MODE of the sampling distribution is fixed to 0
    FEW_SHUFFLES = False      # True: shuffle explores identity and reversal only (under-approximation, stated in the evidence)

    # numpy.random API used by the generators
    def randint(self, low, high=None, size=None):
        if high is None:
            low, high = 0, low
        if size is None:
            if RNG.FIX_MODE_DRAW:
                sid, k = self.state
                self.state = (sid, k + 1)
                return low
            return low + self._draw(int(high - low), 'randint')
        shape = (size,) if isinstance(size, int) else tuple(size)
        out = np.empty(shape, dtype=int)
        cells = int(np.prod(shape))
        flat = out.reshape(-1)
        for i in range(cells):
            flat[i] = self._cell(i, shape, int(low), int(high))
        return out

    CELL = None   # optional hook (index, shape, low, high) -> value, used for large matrices where only a few cells are symbolic

    def _cell(self, i, shape, low, high):
        if RNG.CELL is not None:
            r = RNG.CELL(self, i, shape, low, high)
            if r is not None:
                return r
        return low + self._draw(high - low, 'randint')

    def choice(self, a, size=None, replace=True, p=None):
        vec = np.arange(a) if isinstance(a, (int, np.integer)) else np.asarray(a)
        n = len(vec)
        allowed = [i for i in range(n) if p is None or p[i] > 0]
        if len(allowed) > WIDE:
            allowed = allowed[:3] + allowed[-2:]      # a wide range: representatives only (under-approximation, stated in the evidence)
        if n == 0 and (size is None or int(np.prod(size)) > 0):
            raise ValueError("'a' cannot be empty unless no samples are taken")
        if size is None:
            return vec[allowed[self._draw(len(allowed), 'choice')]]
        k = int(size if not isinstance(size, tuple) else np.prod(size))
        idx = []
        for _ in range(k):
            pool = [i for i in allowed if (replace or i not in idx)]
            if not pool:
                raise ValueError("Cannot take a larger sample than population when 'replace=False'")
            idx.append(pool[self._draw(len(pool), 'choice')])
        return vec[idx] if k else vec[:0]

    def shuffle(self, arr):
        n = len(arr)
        if RNG.FEW_SHUFFLES:
            if n > 1 and self._draw(2, 'shuffle'):
                arr[:] = np.array(arr)[::-1]
            return
        rest = list(range(n))
        perm = [rest.pop(self._draw(len(rest), 'shuffle')) for _ in range(n)]
        arr[:] = np.array(arr)[perm]

    def normal(self, loc=0.0, scale=1.0, size=None):
        # only sign/shape matters to the clauses that are checked: a fixed non-degenerate vector (the Pearson clause is not claimed)
        n = int(size)
        return np.array([((i * 7919) % 13 - 6) / 3.0 + 0.1 * i for i in range(n)], dtype=float) * scale + loc

    def random(self, size=None):
        n = int(size)
        return np.array([(self._draw(4, 'random') + 0.5) / 4 for _ in range(n)])


    # the new-style Generator API: default_rng(seed) is a generator of its own - seeded, its draws are a function of ITS seed;
    # unseeded, it takes fresh OS entropy, so nothing (in particular not numpy.random.seed) determines its draws
    def default_rng(self, seed=None):
        return _Gen(self, seed)


WIDE = 64
_FRESH = [0]


class _Gen:
    def __init__(self, parent, seed):
        self.r = RNG.__new__(RNG)
        self.r.memo, self.r.log = parent.memo, parent.log
        if seed is None:
            _FRESH[0] += 1
            self.r.state = (('os-entropy', _FRESH[0]), 0)
        else:
            self.r.state = (('generator', int(seed)), 0)

    def choice(self, a, size=None, replace=True, p=None, **k):
        return self.r.choice(a, size=size, replace=replace, p=p)

    def integers(self, low, high=None, size=None, **k):
        return self.r.randint(low, high, size)

    def shuffle(self, arr):
        return self.r.shuffle(arr)

    def permutation(self, x):
        arr = np.arange(x) if isinstance(x, (int, np.integer)) else np.array(x)
        self.r.shuffle(arr)
        return arr

    def random(self, size=None):
        return self.r.random(size)


RNGI = RNG()


def np_proxy():
    m = types.ModuleType('numpy')

    def ga(name):
        return getattr(np, name)
    m.__getattr__ = ga
    m.random = RNGI
    return m


def load_cc():
    ns = loader.load('outrank/algorithms/synthetic_data_generators/cc_generator.py', shims={'numpy': np_proxy()})
    loader.record_functions('outrank/algorithms/synthetic_data_generators/cc_generator.py', None)
    return ns['CategoricalClassification']


def load_naive():
    ns = loader.load('outrank/algorithms/synthetic_data_generators/generator_naive.py', shims={'numpy': np_proxy()}, record=['generate_random_matrix'])
    return ns
