"""C06 - the rank graph covers exactly the requested pairs, in both orientations (symx driving the real mixed_rank_graph)."""
from __future__ import annotations

import itertools
import types
from collections import Counter

import z3

from harness import pipeline as PL
from vlib import hutil, loader, symx
from vlib.symx import SInt

ID = 'C06'

MANIFEST = {
    'engine': 'symx',
    'text': 'Bounded symbolic exploration of the real get_combinations_from_columns / prior_combinations_sample / mixed_rank_graph code on real pandas frames: the number of columns, the position of the label, which columns are 3MR relation columns, the heuristic family (scoring, 3mr, Constant), target-only vs pairwise mode and the per-batch cap are symbolic and decided by the solver; the pair scorer is a token function with a different value per ORDERED pair, so a mirrored triplet can only carry the same score if it was produced by mirroring. On every path the emitted triplets are compared with the specification of the statement (names in the feature space, both orientations with equal scores, exact pair set when the cap allows, exactly cap evaluations otherwise, Constant: each listed pair once with 0). When the cap does not bind, three further mini-batches are run in the same process state and each must again cover the requested pairs. Also symbolic: column names that merely contain the letters AND_REL, the size the pool reports (1..3), the spelling of the scope flag (documented texts, another capitalisation, a boolean: the graph must then be that of ONE of the two modes) and whether the scorer returns NaN for every pair of one column.',
    'note': 'Configurations of <=4 columns (quick) / <=5 (thorough); inputs concretised by solver decisions (bounded-exhaustive, completeness certified); multiplicity of diagonal pairs is not constrained (the statement does not fix it); in 3mr+pairwise mode the extra (relation, relation) diagonal entries the code adds are accepted; pool = serial stub with the order-preserving contract.',
    'technique': 'solver-driven bounded exploration of the real Python code (z3 decides every configuration choice; coverage certificate), specification oracle',
}

BOUNDS = {'quick': [1, 2, 3, 4], 'thorough': [1, 2, 3, 4, 5]}
HEUR = ['MI-numba-randomized', 'MI-numba-3mr', 'Constant']
INFO = {
    'engine': 'symx + z3 (inputs concretised by decisions) + real pandas',
    'explanation': 'see level text',
    'bounds': {t: [f'{m} columns, label anywhere, relation flags, heuristic in {HEUR}, target-only/pairwise, cap 0..#pairs+1' for m in v] for t, v in BOUNDS.items()},
    'outside': ['6..40 columns', 'reference-model (prior) heuristics', 'the real process pool'],
    'assumptions': ['get_importances_estimate_pairwise replaced by a token scorer (a different value per ordered pair)', 'the global evaluation counter is reset per run'],
    'job_timeout': {'quick': 300, 'thorough': 2400},
}


NAN_COLUMN = [None]      # pairs involving this column get the score NaN (an undefined score, e.g. a correlation with a constant column)


def token(a, b):
    if NAN_COLUMN[0] is not None and NAN_COLUMN[0] in (a, b):
        return float('nan')
    return float(sum(ord(c) * (i + 1) for i, c in enumerate(a + '|' + b)) % 9973) + 0.25


def spec(cols, label, heur, target_only):
    rel = [c for c in cols if ' AND_REL ' in c]
    if '3mr' in heur:
        non_rel = [c for c in cols if c not in rel]
        req = {frozenset((a, b)) for a, b in itertools.combinations_with_replacement(non_rel, 2)} | {frozenset((r, label)) for r in rel}
        allowed = {frozenset((r,)) for r in rel} if not target_only else set()
    elif target_only:
        req = {frozenset((c, label)) for c in cols}
        allowed = set()
    else:
        req = {frozenset((a, b)) for a, b in itertools.combinations_with_replacement(cols, 2)}
        allowed = set()
    return req, allowed


# the scope flag as the pipeline may receive it: the two documented texts, another spelling, a plain boolean. For the last two the
# statement does not say which mode is meant - but the rank graph must be that of ONE of the two modes, never a mixture
SPELL = {False: 'False', True: 'True', 'true': 'true', 'bool': True}


def drive(cr, cols, label, heur, target_only, cap, fresh=True, ncpus=1):
    import pandas as pd
    if fresh:
        PL.fresh_state()
        cr.GLOBAL_PRIOR_COMB_COUNTS.clear()
    df = pd.DataFrame({c: ['u', 'v', 'u'] if i % 2 else ['p', 'p', 'q'] for i, c in enumerate(cols)})
    args = types.SimpleNamespace(heuristic=heur, label_column=label, target_ranking_only=SPELL[target_only], combination_number_upper_bound=cap,
                                 reference_model_JSON='', mi_stratified_sampling_ratio=1.0)
    saved = cr.get_importances_estimate_pairwise
    cr.get_importances_estimate_pairwise = lambda comb, ref, a, tmp_df: (comb[0], comb[1], token(comb[0], comb[1]))
    try:
        res = cr.mixed_rank_graph(df, args, PL.SerialPool(ncpus=ncpus), PL.PB())
    finally:
        cr.get_importances_estimate_pairwise = saved
    return [(t[0], t[1], _n(t[2])) for t in res.triplet_scores]


def _n(s):
    return 'NaN' if isinstance(s, float) and s != s else s


def check(trip, cols, label, heur, target_only, cap):
    if target_only not in (True, False):
        a, b = check(trip, cols, label, heur, True, cap), check(trip, cols, label, heur, False, cap)
        return [] if (not a or not b) else [f'scope flag {SPELL[target_only]!r}: neither the target-only graph ({a[0]}) nor the pairwise graph ({b[0]})']
    req, allowed = spec(cols, label, heur, target_only)
    probs = []
    if any(a not in cols or b not in cols for a, b, s in trip):
        probs.append(f'a triplet names a column outside the feature space {cols}')
        return probs
    pairs = Counter(frozenset((a, b)) for a, b, s in trip)
    if heur == 'Constant':
        if any(s != 0.0 for a, b, s in trip):
            probs.append('Constant heuristic emitted a non-zero score')
        n_eval = len(trip)
        seen = set(pairs)
    else:
        cnt = Counter(trip)
        for (a, b, s), k in cnt.items():
            if a != b and cnt.get((b, a, s), 0) != k:
                probs.append(f'orientation ({b}, {a}) with the same score as ({a}, {b}, {s}) is missing')
                break
            if s not in (_n(token(a, b)), _n(token(b, a))):
                probs.append(f'score of ({a}, {b}) is not the scorer\'s value for that pair')
                break
        if len(trip) % 2:
            probs.append('odd number of triplets')
        n_eval = len(trip) // 2
        seen = set(pairs)
    if not seen <= (req | allowed):
        probs.append(f'evaluated pairs outside the specification: {[tuple(p) for p in seen - req - allowed]}')
    if cap >= len(req | allowed) + len(cols):      # cap certainly above the length of the candidate list
        if not req <= seen:
            probs.append(f'pairs missing although the cap ({cap}) exceeds the number of candidates: {[tuple(p) for p in req - seen]}')
    if cap <= len(req):
        if n_eval != cap:
            probs.append(f'{n_eval} pairs evaluated with cap {cap} and {len(req)} candidate pairs')
    return probs


def colnames(m, lpos, relflags):
    cols = []
    k = 0
    for i in range(m):
        if i == lpos:
            cols.append('label')
        else:
            cols.append({0: f'f{i}', 1: f'f{i} AND_REL g{i}', 2: f'BRAND_RELEVANCE{i}'}[int(relflags[k])])     # 2: an ordinary column whose name merely contains the letters AND_REL
            k += 1
    return cols


def jobs(tier):
    import pandas  # noqa
    PL.real_modules()
    out = []
    for m in BOUNDS[tier]:
        for lpos in range(m):
            for h in range(len(HEUR)):
                out.append({'cond': 'pairs', 'm': m, 'pins': {'lpos': lpos, 'heur': h}, 'weight': 2 ** m * m * m, 'label': f'm={m},label@{lpos},{HEUR[h]}'})
    return out


def run_job(job):
    m = job['m']
    cr, cu, tr, ie = PL.real_modules()
    loader.record_functions('outrank/core_ranking.py', ['get_combinations_from_columns', 'prior_combinations_sample', 'mixed_rank_graph'])
    maxcap = m * (m + 1) // 2 + m + 2
    st = {}

    def setup(ctx):
        st['lpos'] = z3.Int('lpos')
        st['heur'] = z3.Int('heur')
        st['to'] = z3.Int('target_only')
        ctx.assume(st['to'] >= 0, st['to'] <= 3)
        st['cap'] = z3.Int('cap')
        st['rel'] = [z3.Int(f'rel{i}') for i in range(m - 1)]
        for v in st['rel']:
            ctx.assume(v >= 0, v <= 2)
        st['nan'] = z3.Bool('nan_scores')
        st['ncpus'] = z3.Int('ncpus')
        ctx.assume(st['ncpus'] >= 1, st['ncpus'] <= 3)
        ctx.assume(z3.Implies(st['nan'], z3.And(st['ncpus'] == 1, st['to'] <= 1)))      # undefined scores are explored with the plain pool and the documented flag values
        ctx.assume(st['lpos'] >= 0, st['lpos'] < m, st['heur'] >= 0, st['heur'] < len(HEUR), st['cap'] >= 0, st['cap'] <= maxcap)
        for k, v in job['pins'].items():
            ctx.assume(z3.Int(k) == v)

    def body(ctx, out):
        lpos = int(SInt(st['lpos'], 0, m - 1))
        heur = HEUR[int(SInt(st['heur'], 0, len(HEUR) - 1))]
        to = [False, True, 'true', 'bool'][int(SInt(st['to'], 0, 3))]
        rel = [int(SInt(r, 0, 2)) for r in st['rel']]
        ncpus = int(SInt(st['ncpus'], 1, 3))
        nan = bool(symx.SBool(st['nan']))
        cap = int(SInt(st['cap'], 0, maxcap))
        cols = colnames(m, lpos, rel)
        w = {'cond': 'pairs', 'cols': cols, 'heur': heur, 'target_only': to, 'cap': cap, 'ncpus': ncpus, 'nan': nan}
        NAN_COLUMN[0] = next(c for c in cols if c != 'label') if (nan and len(cols) > 1) else None
        try:
            probs = check(drive(cr, cols, 'label', heur, to, cap, ncpus=ncpus), cols, 'label', heur, to, cap)
            if not probs and cap >= maxcap - 1:
                # a history of mini-batches in one process: every later batch covers the requested pairs as well
                for k in (2, 3, 4):
                    probs = check(drive(cr, cols, 'label', heur, to, cap, fresh=False, ncpus=ncpus), cols, 'label', heur, to, cap)
                    if probs:
                        probs = [f'mini-batch {k} of a history in one process: ' + probs[0]]
                        w['batches'] = k
                        break
        except Exception as e:
            probs = [f'{type(e).__name__}: {e}']
        if probs or out.twin:
            out.concrete_fail(w, probs[0] if probs else 'twin')
        else:
            out.concrete_ok()
        out.sample(w)
    return hutil.run_symx(job, setup, body)


def replay(w):
    cr, cu, tr, ie = PL.real_modules()
    try:
        NAN_COLUMN[0] = next(c for c in w['cols'] if c != 'label') if (w.get('nan') and len(w['cols']) > 1) else None
        trip = drive(cr, w['cols'], 'label', w['heur'], w['target_only'], w['cap'], ncpus=w.get('ncpus', 1))
        for k in range(2, w.get('batches', 1) + 1):
            trip = drive(cr, w['cols'], 'label', w['heur'], w['target_only'], w['cap'], fresh=False, ncpus=w.get('ncpus', 1))
    except Exception as e:
        return {'reproduced': True, 'signature': f'C06:exception:{type(e).__name__}', 'what': f'columns {w["cols"]}, {w["heur"]}, target_only={w["target_only"]}, cap {w["cap"]}: {type(e).__name__}: {e}'}
    probs = check(trip, w['cols'], 'label', w['heur'], w['target_only'], w['cap'])
    if probs:
        return {'reproduced': True, 'signature': 'C06:' + probs[0].split()[0] + (':later-batch' if w.get('batches') else ''), 'what': (f'mini-batch {w["batches"]} of a history: ' if w.get('batches') else '') + f'pool of {w.get("ncpus", 1)} workers, ' + ('NaN scores for one column, ' if w.get('nan') else '') + f'columns {w["cols"]}, {w["heur"]}, target_only={w["target_only"]}, cap {w["cap"]}: ' + '; '.join(probs)[:500]}
    return {'reproduced': False, 'what': 'triplets match the specification'}
