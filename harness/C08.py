"""C08 - streaming equals reference batch semantics with median aggregation (symx driving the real streaming loop and task)."""
from __future__ import annotations

import json
import os
import shutil
import statistics
import tempfile

import z3

from harness import pipeline as PL
from vlib import hutil, loader, symx
from vlib.symx import SInt

ID = 'C08'

MANIFEST = {
    'engine': 'symx',
    'text': 'Bounded symbolic exploration of the real estimate_importances_minibatches loop (real csv parser, real pandas median aggregation and checkpoint file, batch scorer replaced by a recorder with known scores) and of the real outrank_task_conduct_ranking end to end (real batch scorer, serial pool stub): the number of data lines, which lines are malformed (one field short / one too many), whether the last line carries a line terminator, the subsampling factor and the mini-batch size are symbolic and decided by the solver; on every path the consumed rows, the batch boundaries, the dropped remainder, the tail rule (>1024 rows, explored with 1020..1030-line files), the invalid-line count, the checkpoint after every batch, the returned medians, the ascending order of pairwise_ranks.tsv, the name annotations and the exported counters are compared with a reference written from the statement. Condition order replaces the scores of three pairs by solver-chosen values that differ by 1e-7..4e-7 and requires pairwise_ranks.tsv to be in ascending order of the written scores. Path sets are certified complete.',
    'note': 'Inputs are concretised by solver decisions (bounded-exhaustive exploration through the real code; the solver certifies completeness of the explored set). Files <=5 lines (quick) / <=7 (thorough), subsampling 1..3, batch size 1..3; tail rule with batch sizes {1025,1026,2000}. The file is a list of text lines (file stub) in the loop condition and a real file in the task condition; gzip input, the progress bar and the real process pool are outside.',
    'technique': 'solver-driven bounded exploration of the real Python code (z3 decides every input choice; coverage certificate), reference-semantics oracle',
}

BOUNDS = {'quick': {'stream': 4, 'tail': 1, 'task': 4}, 'thorough': {'stream': 6, 'tail': 1, 'task': 6}}
INFO = {
    'engine': 'symx + z3 (inputs concretised by decisions) + real pandas/csv',
    'explanation': 'see level text',
    'bounds': {t: {'stream': f'<= {b["stream"]} data lines, per line good/short/long/blank/quoted-delimiter, last line with/without its terminator, subsampling 1..3, minibatch 1..3', 'tail': 'N in 1020..1030 good lines, minibatch in {1025, 1026, 2000}, last line with/without terminator', 'order': 'one batch of 3 rows, scores of three pairs chosen from {0.5, 0.5000001, 0.5000004}',
                   'task': f'<= {b["task"]} data lines (good/short), subsampling 1..2, minibatch 2..3, real scorer MI-numba-randomized'} for t, b in BOUNDS.items()},
    'outside': ['gzip input', 'progress bar', 'the real process pool (serial stub with the documented order-preserving contract)', 'files longer than the bound'],
    'assumptions': ['open() replaced by a list-of-lines stream in the loop condition', 'recorder scores are distinct known constants per (batch, pair)'],
    'job_timeout': {'quick': 300, 'thorough': 2400},
}

COLS = ['fa', 'fb', 'label']
SCORES = [3.0, 3.0, 10.0, 1.0, 10.0, 2.0, 3.0, 4.0]   # repeated values: the median of all per-batch scores differs from the median of the distinct ones


def mk_lines(kinds, eol=True):
    """the data lines; eol=False: the last line of the file has no line terminator (still a complete row)"""
    lines = [line(i, k) for i, k in enumerate(kinds)]
    if not eol and lines and lines[-1].rstrip('\n'):
        lines[-1] = lines[-1].rstrip('\n')
    return lines


NEAR = [0.5, 0.5000001, 0.5000004]      # distinct scores closer than any display rounding; "ascending score order" still orders them
NEAR_PAIRS = [('fa', 'fb'), ('fa', 'label'), ('fb', 'label')]


def line(i, kind):
    if kind == 0:
        return f'a{i % 3},b{i % 2},{i % 2}\n'
    if kind == 1:
        return f'a{i % 3},b{i % 2}\n'
    if kind == 3:
        return ' \n' if i % 2 else '\n'      # blank / whitespace-only line: occupies a file position, has the wrong field count
    if kind == 4:
        return f'"a{i % 3},z",b{i % 2},{i % 2}\n'      # well-formed: the delimiter sits inside a quoted field
    return f'a{i % 3},b{i % 2},{i % 2},x\n'


class Stream:
    def __init__(self, lines):
        self.lines = lines
        self.i = -1

    def readline(self):
        self.i += 1
        return self.lines[self.i] if self.i < len(self.lines) else ''

    def __iter__(self):
        while True:
            l = self.readline()
            if not l:
                return
            yield l

    def close(self):
        pass


def read_ckpt(pd):
    """the checkpoint file as TEXT names and float scores (a feature may be called NA or 1: no type or missing-value inference)"""
    if not os.path.exists('ranking_checkpoint_tmp.tsv'):
        return None
    return pd.read_csv('ranking_checkpoint_tmp.tsv', sep='\t', index_col=0, keep_default_na=False, na_values=[], dtype={'FeatureA': str, 'FeatureB': str})


NAME_KINDS = [('fa', 'fb'), ('NA', 'fb'), ('1', '2'), ('null', 'None')]      # feature names that look like missing-value markers or numbers


def drive_loop(cr, cu, lines, sub, mb, heuristic='MI-numba-randomized', data_source='csv-raw', delimiter=',', names=('fa', 'fb')):
    """real estimate_importances_minibatches over a list of lines with a recording batch scorer; returns the observations"""
    import pandas as pd
    from outrank.core_utils import BatchRankingSummary
    rec = {'batches': [], 'ckpt': [], 'trip': [], 'sel': []}
    PL.fresh_state()
    cr.GLOBAL_PRIOR_COMB_COUNTS.clear()
    import types
    d = tempfile.mkdtemp(prefix='c08-', dir='/var/tmp')
    cwd = os.getcwd()

    def fake_batch(line_tmp_storage, numeric_column_types, args, cpu_pool, column_descriptions, logger, pbar):
        k = len(rec['batches'])
        if k > 0:
            rec['ckpt'].append(read_ckpt(pd))
        rec['batches'].append([list(r) for r in line_tmp_storage])
        # like the real batch scorer, select this batch's combinations through the fair sampler (2 candidates, cap 1)
        fa, fb = names
        rec['sel'].append(list(cr.prior_combinations_sample([(fa, 'label'), (fb, 'label')], types.SimpleNamespace(combination_number_upper_bound=1))))
        s = SCORES[k % len(SCORES)]
        trip = [(fa, 'label', s), ('label', fa, s), (fb, 'label', 20.0 - s), ('label', fb, 20.0 - s)]
        if k % 2 == 1:
            trip.append((fa, fb, 0.5 * s))
        rec['trip'].append(trip)
        return BatchRankingSummary(trip, {}), {}, {c: 100.0 for c in column_descriptions}, {}
    saved = (cr.compute_batch_ranking, cr.get_num_of_instances, getattr(cr, 'open', None))
    cr.compute_batch_ranking = fake_batch
    cr.get_num_of_instances = lambda f: len(lines)
    cr.open = lambda *a, **k: Stream(lines)
    log = PL.Logger()
    import types
    args = types.SimpleNamespace(disable_tqdm='True', data_source=data_source, heuristic=heuristic, task='ranking', subsampling=sub, minibatch_size=mb)
    os.chdir(d)
    try:
        out = cr.estimate_importances_minibatches('data.csv', list(names) + ['label'], None, set(), args=args, cpu_pool=None, delimiter=delimiter, logger=log)
        rec['final_ckpt'] = read_ckpt(pd)
    finally:
        os.chdir(cwd)
        shutil.rmtree(d, ignore_errors=True)
        cr.compute_batch_ranking, cr.get_num_of_instances = saved[0], saved[1]
        if saved[2] is None:
            del cr.open
        else:
            cr.open = saved[2]
    rec['grouped'] = out[1]
    rec['counts'] = dict(out[7])
    rec['log'] = log.msgs
    return rec


def med_table(trips):
    exp = {}
    for a, b, s in trips:
        exp.setdefault((a, b), []).append(s)
    return {k: statistics.median(v) for k, v in exp.items()}


def df_table(df):
    if df is None:
        return None
    return {(r.FeatureA if isinstance(r.FeatureA, str) else repr(r.FeatureA), r.FeatureB if isinstance(r.FeatureB, str) else repr(r.FeatureB)): float(r.Score) for r in df.itertuples()}


def check_loop(rec, kinds, sub, mb, tail_min=1024):
    """reference semantics from the statement"""
    n = len(kinds)
    sel = [i for i in range(n) if (i + 1) % sub == 0]
    good = [i for i in sel if kinds[i] in (0, 4)]
    bad = [i for i in sel if kinds[i] not in (0, 4)]
    rows = [([f'a{i % 3},z', f'b{i % 2}', str(i % 2)] if kinds[i] == 4 else line(i, 0).strip().split(',')) for i in good]
    nfull = len(rows) // mb
    exp_batches = [rows[j * mb:(j + 1) * mb] for j in range(nfull)]
    rem = rows[nfull * mb:]
    if len(rem) > tail_min:
        exp_batches.append(rem)
    probs = []
    if rec['batches'] != exp_batches:
        probs.append(f'batches scored {[len(b) for b in rec["batches"]]} (rows differ or sizes) vs reference {[len(b) for b in exp_batches]}')
        return probs
    # checkpoints after every batch
    allt = []
    cks = rec['ckpt'] + [rec['final_ckpt']]
    for k, trip in enumerate(rec['trip']):
        allt += trip
        got = df_table(cks[k]) if k < len(cks) else None
        if got != med_table(allt):
            probs.append(f'checkpoint after batch {k + 1} is {got}, medians of batches 1..{k + 1} are {med_table(allt)}')
            break
    g = df_table(rec['grouped'])
    if (g or None) != (med_table(allt) or None):
        probs.append(f'returned aggregation {g} vs medians {med_table(allt)}')
    from collections import Counter
    recount = Counter(c for b in rec['sel'] for c in b)
    if {k: v for k, v in rec['counts'].items() if v} != dict(recount):
        probs.append(f'returned evaluation counts {rec["counts"]} vs number of batches in which each combination was selected {dict(recount)}')
    det = [m for m in rec['log'] if m.startswith('Detected ')]
    cnt = int(det[0].split()[1]) if det else 0
    if cnt != len(bad):
        probs.append(f'{cnt} invalid lines counted, {len(bad)} malformed lines were selected')
    return probs


# ---- end-to-end task ---------------------------------------------------------------------------

def drive_task(lines, sub, mb, heuristic='MI-numba-randomized', scores=None, cols=None, extra=(), scorefn=None):
    import pandas as pd
    cr, cu, tr, ie = PL.real_modules()
    d = tempfile.mkdtemp(prefix='c08t-', dir='/var/tmp')
    os.makedirs(os.path.join(d, 'in'))
    with open(os.path.join(d, 'in', 'data.csv'), 'w') as f:
        f.write(','.join(cols or COLS) + '\n' + ''.join(lines))
    args = PL.cli_args(['--data_path', os.path.join(d, 'in'), '--data_source', 'csv-raw', '--output_folder', os.path.join(d, 'out'), '--heuristic', heuristic,
                        '--subsampling', str(sub), '--minibatch_size', str(mb), '--disable_tqdm', 'True', '--num_threads', '1', '--target_ranking_only', 'False'] + list(extra))
    PL.fresh_state()
    rec = {'batches': [], 'trip': [], 'cov': []}
    real_cbr = cr.compute_batch_ranking

    def wrap(line_tmp_storage, *a, **k):
        rec['batches'].append([list(r) for r in line_tmp_storage])
        r = real_cbr(line_tmp_storage, *a, **k)
        if scorefn:
            from outrank.core_utils import BatchRankingSummary
            r = (BatchRankingSummary([(x, y, scorefn(x, y)) for x, y, sc in r[0].triplet_scores], r[0].step_times),) + tuple(r[1:])
        if scores:
            # the scorer's values for three pairs are replaced by solver-chosen near-ties (both orientations alike)
            from outrank.core_utils import BatchRankingSummary
            r = (BatchRankingSummary([(x, y, scores.get(frozenset((x, y)), sc)) for x, y, sc in r[0].triplet_scores], r[0].step_times),) + tuple(r[1:])
        rec['trip'].append(list(r[0].triplet_scores))
        rec['cov'].append(dict(r[2]))
        return r
    saved = (cr.compute_batch_ranking, tr.Pool)
    cr.compute_batch_ranking = wrap
    tr.Pool = PL.SerialPool
    cwd = os.getcwd()
    os.chdir(d)
    res = {'exit': None}
    try:
        try:
            tr.outrank_task_conduct_ranking(args)
        except SystemExit:
            res['exit'] = 'SystemExit'
        out = os.path.join(d, 'out')
        if os.path.exists(os.path.join(out, 'pairwise_ranks.tsv')):
            res['ranks'] = pd.read_csv(os.path.join(out, 'pairwise_ranks.tsv'), sep='\t', keep_default_na=False).values.tolist()
            res['reps'] = json.load(open(os.path.join(out, 'value_repetitions.json')))
            res['combs'] = json.load(open(os.path.join(out, 'combination_estimation_counts.json')))
            if os.path.exists(os.path.join(out, '3mr_ranks.tsv')):
                res['3mr'] = pd.read_csv(os.path.join(out, '3mr_ranks.tsv'), sep='\t', keep_default_na=False).values.tolist()
        res['ckpt_left'] = os.path.exists('ranking_checkpoint_tmp.tsv')
    finally:
        os.chdir(cwd)
        shutil.rmtree(d, ignore_errors=True)
        cr.compute_batch_ranking, tr.Pool = saved
    res.update(rec)
    return res


def check_task(res, kinds, sub, mb):
    from collections import Counter
    n = len(kinds)
    sel = [i for i in range(n) if (i + 1) % sub == 0 and kinds[i] == 0]
    rows = [line(i, 0).strip().split(',') for i in sel]
    nfull = len(rows) // mb
    exp_batches = [rows[j * mb:(j + 1) * mb] for j in range(nfull)]
    probs = []
    if res['batches'] != exp_batches:
        return [f'batches scored {res["batches"]} vs reference {exp_batches}']
    if not exp_batches:
        if res['exit'] != 'SystemExit' or 'ranks' in res:
            probs.append('no batch to score but the task did not stop with "no rankings"')
        return probs
    if 'ranks' not in res:
        return [f'pairwise_ranks.tsv missing (exit={res["exit"]})']
    allt = [t for b in res['trip'] for t in b]
    med = med_table(allt)
    consumed = [r for b in exp_batches for r in b]
    ann = {}
    for j, c in enumerate(COLS):
        card = len({r[j] for r in consumed if r[j] != ''})
        mean_cov = statistics.fmean(float(b[c]) for b in res['cov'])
        ann[c] = (card, mean_cov)
    import math
    import re as _re

    def norm(name):
        # "<feature>-(<cardinality>; <coverage>)": the statement fixes the cardinality and says the coverage is the mean of the
        # per-batch percentages; it does not fix how that mean is rounded for display, so floor..ceil of the mean is accepted
        m = _re.fullmatch(r'(.*)-\((\d+); (-?\d+)\)', name)
        if not m or m.group(1) not in ann:
            return name
        card, mean_cov = ann[m.group(1)]
        ok = int(m.group(2)) == card and math.floor(mean_cov) <= int(m.group(3)) <= math.ceil(mean_cov)
        return m.group(1) if ok else name + ' [annotation differs from exact recomputation]'
    exp_rows = sorted((a, b, s) for (a, b), s in med.items())
    got_rows = [(norm(r[0]), norm(r[1]), float(r[2])) for r in res['ranks']]
    if sorted(got_rows) != [(a, b, float(s)) for a, b, s in exp_rows]:
        nan_involved = any(x[2] != x[2] for x in got_rows)
        if not nan_involved or len(got_rows) != len(exp_rows):
            probs.append(f'pairwise_ranks.tsv rows {sorted(got_rows)[:4]}... vs medians with annotated names {exp_rows[:4]}...')
    sc = [r[2] for r in got_rows if r[2] == r[2]]
    if any(sc[i] > sc[i + 1] for i in range(len(sc) - 1)):
        probs.append(f'pairwise_ranks.tsv not in ascending score order: {sc}')
    for j, c in enumerate(COLS):
        cnt = Counter(r[j] for r in consumed)
        exp_h = {str(x): sum(1 for v in cnt.values() if v > x) for x in [0] + [10 ** k for k in range(6)]}
        if res['reps'].get(c) != exp_h:
            probs.append(f'value_repetitions[{c}] = {res["reps"].get(c)} vs exact {exp_h}')
    # exported counter == number of times each combination was actually evaluated (every evaluation emits both orientations,
    # i.e. two triplets; the pairwise list carries the diagonal twice, so a diagonal pair is evaluated twice per batch)
    exp_c = Counter()
    for b in res['trip']:
        for t in b:
            exp_c[tuple(sorted((t[0], t[1])))] += 1
    exp_c = {k: v // 2 for k, v in exp_c.items()}
    import ast
    got_c = Counter()
    for k, v in res['combs'].items():
        got_c[tuple(sorted(ast.literal_eval(k)))] += v
    if dict(got_c) != exp_c:
        probs.append(f'combination_estimation_counts {dict(got_c)} vs evaluations recounted from the emitted triplets {exp_c}')
    return probs


def jobs(tier):
    import pandas  # noqa
    PL.real_modules()
    b = BOUNDS[tier]
    out = []
    for n in range(0, b['stream'] + 1):
        pins_list = [{}] if n < 4 else list(hutil.product_pins([('k0', range(5)), ('k1', range(5))]))
        for pins in pins_list:
            out.append({'cond': 'stream', 'n': n, 'pins': pins, 'weight': 3 ** n, 'label': f'n={n},{pins}'})
    for mb in (1025, 1026, 2000):
        out.append({'cond': 'tail', 'mb': mb, 'pins': {}, 'weight': 50, 'label': f'mb={mb}'})
    for s0 in range(len(NEAR)):
        out.append({'cond': 'order', 'n': 3, 'pins': {'sc0': s0}, 'weight': 9, 'label': f'near-tied scores, sc0={s0}'})
    for n in range(0, b['task'] + 1):
        for sub in (1, 2):
            out.append({'cond': 'task', 'n': n, 'pins': {'sub': sub}, 'weight': 2 ** n * 20, 'label': f'n={n},sub={sub}'})
    return out


def run_job(job):
    cond = job['cond']
    cr, cu, tr, ie = PL.real_modules()
    loader.record_functions('outrank/core_ranking.py', ['estimate_importances_minibatches', 'get_grouped_df', 'checkpoint_importances_df'])
    loader.record_functions('outrank/core_utils.py', ['generic_line_parser', 'parse_ob_csv_line'])
    if cond in ('task', 'order'):
        loader.record_functions('outrank/task_ranking.py', ['outrank_task_conduct_ranking'])
        loader.record_functions('outrank/core_ranking.py', ['compute_batch_ranking', 'mixed_rank_graph'])
    st = {}

    def setup(ctx):
        if cond == 'tail':
            st['n'] = z3.Int('n')
            st['eol'] = z3.Bool('eol')
            ctx.assume(st['n'] >= 1020, st['n'] <= 1030)
            return
        n = job['n']
        nk = 5 if cond == 'stream' else 2
        st['k'] = [z3.Int(f'k{i}') for i in range(n)]
        for v in st['k']:
            ctx.assume(v >= 0, v < nk)
        st['sub'] = z3.Int('sub')
        st['mb'] = z3.Int('mb')
        st['eol'] = z3.Bool('eol')
        if cond == 'order':
            st['sc'] = [z3.Int(f'sc{i}') for i in range(len(NEAR_PAIRS))]
            for v in st['sc']:
                ctx.assume(v >= 0, v < len(NEAR))
            ctx.assume(st['sub'] == 1, st['mb'] == 3, st['eol'])
            for v in st['k']:
                ctx.assume(v == 0)
            return
        st['nm'] = z3.Int('names')
        ctx.assume(st['nm'] >= 0, st['nm'] < (len(NAME_KINDS) if cond == 'stream' else 1))
        if cond == 'stream':
            # names other than the plain ones only with well-formed lines (what is at stake is the aggregation, not the line filter)
            ctx.assume(z3.Or(st['nm'] == 0, z3.And([v == 0 for v in st['k']])))
            ctx.assume(st['sub'] >= 1, st['sub'] <= 3, st['mb'] >= 1, st['mb'] <= 3)
        else:
            ctx.assume(st['sub'] >= 1, st['sub'] <= 2, st['mb'] >= 2, st['mb'] <= 3)
        for k, v in job['pins'].items():
            ctx.assume(z3.Int(k) == v)

    def body(ctx, out):
        if cond == 'tail':
            n = int(SInt(st['n'], 1020, 1030))
            kinds = [0] * n
            sub, mb = 1, job['mb']
        else:
            n = job['n']
            kinds = [int(SInt(v, 0, 4)) for v in st['k']]
            sub = int(SInt(st['sub'], 1, 3))
            mb = int(SInt(st['mb'], 1, 3))
        eol = True if cond in ('order',) else bool(symx.SBool(st['eol'])) if 'eol' in st else True
        if cond == 'tail':
            eol = bool(symx.SBool(st['eol']))
        lines = mk_lines(kinds, eol)
        w = {'cond': cond, 'kinds': kinds if cond != 'tail' else n, 'sub': sub, 'mb': mb, 'eol': eol}
        scores = None
        if cond == 'order':
            scores = {frozenset(p): NEAR[int(SInt(v, 0, len(NEAR) - 1))] for p, v in zip(NEAR_PAIRS, st['sc'])}
            w['scores'] = [scores[frozenset(p)] for p in NEAR_PAIRS]
        try:
            if cond in ('task', 'order'):
                probs = check_task(drive_task(lines, sub, mb, scores=scores), kinds, sub, mb)
            else:
                nm = NAME_KINDS[int(SInt(st['nm'], 0, len(NAME_KINDS) - 1))] if 'nm' in st else NAME_KINDS[0]
                w['names'] = list(nm)
                probs = check_loop(drive_loop(cr, cu, [','.join(list(nm) + ['label']) + '\n'] + lines, sub, mb, names=nm), kinds, sub, mb)
        except Exception as e:
            import traceback
            tb = traceback.extract_tb(e.__traceback__)[-1]
            probs = [f'{type(e).__name__}: {e} ({os.path.basename(tb.filename)}:{tb.lineno})']
        if probs or out.twin:
            out.concrete_fail(w, probs[0] if probs else 'twin')
        else:
            out.concrete_ok()
        out.sample({'lines': n, 'kinds': kinds[:8], 'subsampling': sub, 'minibatch': mb})
    return hutil.run_symx(job, setup, body)


def replay(w):
    cr, cu, tr, ie = PL.real_modules()
    cond, sub, mb = w['cond'], w['sub'], w['mb']
    kinds = [0] * w['kinds'] if cond == 'tail' else w['kinds']
    lines = mk_lines(kinds, w.get('eol', True))
    scores = {frozenset(p): v for p, v in zip(NEAR_PAIRS, w['scores'])} if w.get('scores') else None
    try:
        if cond in ('task', 'order'):
            probs = check_task(drive_task(lines, sub, mb, scores=scores), kinds, sub, mb)
        else:
            nm = tuple(w.get('names') or NAME_KINDS[0])
            probs = check_loop(drive_loop(cr, cu, [','.join(list(nm) + ['label']) + '\n'] + lines, sub, mb, names=nm), kinds, sub, mb)
    except Exception as e:
        import traceback
        tb = traceback.extract_tb(e.__traceback__)[-1]
        return {'reproduced': True, 'signature': f'C08:{cond}:exception:{type(e).__name__}:{tb.name}', 'what': f'{cond}: lines {w["kinds"]}, subsampling {sub}, minibatch {mb}: {type(e).__name__}: {e} in {tb.name} ({os.path.basename(tb.filename)}:{tb.lineno})'}
    if probs:
        key = probs[0].split()[0]
        return {'reproduced': True, 'signature': f'C08:{cond}:{key}', 'what': f'{cond}: line kinds {w["kinds"]} (0 good, 1 short, 2 long, 3 blank, 4 quoted delimiter), subsampling {sub}, minibatch {mb}' + (f', feature names {w["names"]}' if w.get('names') and tuple(w['names']) != NAME_KINDS[0] else '') + ('' if w.get('eol', True) else ', last line without terminator') + (f', scores {w["scores"]} for {NEAR_PAIRS}' if w.get('scores') else '') + ': ' + '; '.join(probs)[:600]}
    return {'reproduced': False, 'what': 'reference semantics observed'}
