"""C11 - feature construction is additive, row-aligned and follows its stated rule (CrossHair on the constructors + real pipeline)."""
from __future__ import annotations

import types

import z3

from vlib import chharness, hutil, loader, symx
from vlib.symx import SInt

ID = 'C11'

MANIFEST = {
    'engine': 'crosshair',
    'text': 'Two parts. (1) CrossHair (symbolic strings) on the real compute_expanded_multivalue_features and compute_subfeatures source over a list-backed pandas stand-in: the cells of the constructor\'s source columns are symbolic strings; for every value within the bound CrossHair must confirm over all paths that the input columns come first and unchanged in the same row order, that exactly one MULTIEX column exists per non-missing token and is "1" exactly on the rows whose delimited value contains the token, that a one-sided sub-feature carries value_a+"AND"+value_b exactly on the rows where the selector has the given value, and that a two-sided one is the 0/1 indicator of its value pair. (2) The real compute_batch_ranking on real pandas with every subset of the construction flags (multi-value expansion, one-/two-sided sub-features, interaction order, transformers, noise controls) and solver-chosen cells: the frame handed to the scorer must start with the original columns unchanged, hold exactly one non-null value per row in every new column, satisfy the same rules for every constructed column it contains, and CONTROL-target must replicate the label. In the pipeline condition one numeric cell is symbolic (a value, a missing cell, a value equal to another row) and transformed columns must give equal cells equal values.',
    'note': 'CrossHair conditions: <= 3-4 symbolic characters over alphabets of <= 4 letters, 2-3 rows; pipeline condition: 3 rows, cells from a pool, 120 flag combinations incl. two exploded multi-value columns with overlapping vocabularies and mappings mixing -> and <->; a further condition uses values containing "&" for two-sided sub-features; the distributions of the random controls are not claimed (presence, length and type only); interaction columns themselves are C10, transformer formulas C12.',
    'technique': 'CrossHair symbolic execution of the real constructors (z3 strings) + solver-driven bounded exploration of the real pipeline over all construction-flag subsets',
}

CONDS = ['multivalue', 'multivalue_three_rows', 'onesided', 'onesided_three_rows', 'twosided']
INFO = {
    'engine': 'crosshair-tool 0.0.110 + z3; symx for the pipeline condition',
    'explanation': 'see level text',
    'bounds': {'quick': {**{c: 'see precondition in harness/ch_c11.py' for c in CONDS}, 'pipeline': '3 rows x 4 columns, 2 symbolic multi-value cells from a pool of 4, all 120 flag combinations (one or two exploded multi-value columns (incl. mappings mixing -> and <->)'},
               'thorough': {**{c: 'same conditions with one more symbolic character per string, longer budget' for c in CONDS}, 'pipeline': 'same'}},
    'outside': ['distributions of the random control features', 'larger frames'],
    'assumptions': ['pandas replaced by sympd and set by a list-backed set inside CrossHair', 'mixed_rank_graph replaced by a recorder in the pipeline condition'],
    'job_timeout': {'quick': 600, 'thorough': 2400},
    'max_replays': 10, 'max_replays_per_cond': 2,
}
_ch_jobs, _ch_run = chharness.make('harness.ch_c11', CONDS, {'quick': 240, 'thorough': 900},
                                   [('outrank/core_ranking.py', ['compute_expanded_multivalue_features', 'compute_subfeatures'])])

FA_POOL = ['a,b', '', 'a-c', 'b']      # quick tier: the first three
FLAGS = [(ex, sub, order, noise, tr) for ex in ('False', 'fa', 'fa;fc') for sub in ('False', 'fa->fb', 'fb<->fa', 'fa->fb;fb<->fa', 'fb<->fa;fa->fb') for order in (1, 2) for noise in ('True', 'False') for tr in ('none', 'minimal')]
COLS = ['fa', 'fb', 'fc', 'num', 'label']
NUM_POOL = ['4', '', '2']      # numeric cells: a value, a missing (empty) cell, a value equal to another row's
FC = ['b', 'a,c', '']      # a second multi-value column whose vocabulary overlaps with fa's


def jobs(tier):
    import pandas  # noqa
    from vlib import selfcheck
    selfcheck.check_sympd()      # the pandas stand-in must agree with the real pandas on the operations the code uses
    out = _ch_jobs(tier)
    out.append({'cond': 'twosided-amp', 'pins': {}, 'weight': 20, 'label': 'twosided-amp'})
    for fi in range(len(FLAGS)):
        out.append({'cond': 'pipeline', 'pins': {'flags': fi}, 'weight': 3, 'label': f'flags={FLAGS[fi]}'})
    return out


def drive_pipeline(rows, flags):
    from harness import C09
    from harness import pipeline as PL
    cr, cu, tr, ie = PL.real_modules()
    ex, sub, order, noise, trf = flags
    args = C09.make_args(explode_multivalue_features=ex, subfeature_mapping=sub, interaction_order=order, include_noise_baseline_features=noise, transformers=trf,
                         target_ranking_only='True', heuristic='MI-numba-randomized')
    PL.fresh_state()
    for g in (cr.GLOBAL_CARDINALITY_STORAGE, cr.GLOBAL_COUNTS_STORAGE, cr.GLOBAL_RARE_VALUE_STORAGE, cr.GLOBAL_PRIOR_COMB_COUNTS, cr.IGNORED_VALUES):
        g.clear()
    seen = {}
    saved = cr.mixed_rank_graph

    def rec(df, a, pool, pbar):
        seen['df'] = df
        from outrank.core_utils import BatchRankingSummary
        return BatchRankingSummary([], {})
    cr.mixed_rank_graph = rec
    try:
        cr.compute_batch_ranking([list(r) for r in rows], {'num'}, args, PL.SerialPool(), list(COLS), PL.Logger(), PL.PB())
    finally:
        cr.mixed_rank_graph = saved
    return seen['df']


def check_pipeline(D, rows, flags):
    import pandas as pd
    from harness import ch_c11 as O
    ex, sub, order, noise, trf = flags
    probs = []
    n = len(rows)
    if list(D.columns[:len(COLS)]) != COLS or any(D[c].tolist() != [r[j] for r in rows] for j, c in enumerate(COLS)):
        probs.append('the original columns are not the first columns / were changed / rows reordered')
        return probs
    if D.shape[0] != n:
        probs.append(f'{D.shape[0]} rows after construction, {n} rows in the batch')
        return probs
    if len(set(D.columns)) != len(D.columns):
        probs.append('duplicate column names')
    for c in D.columns[len(COLS):]:
        if D[c].isna().any():
            probs.append(f'constructed column {c!r} has no value on some row')
            return probs
    names = list(D.columns)
    fa, fb = [r[0] for r in rows], [r[1] for r in rows]
    if trf != 'none':
        # row alignment of the transformed columns: rows with the same numeric cell get the same transformed value
        num = [r[COLS.index('num')] for r in rows]
        tcols = [c for c in names[len(COLS):] if c.startswith('num') and ' AND ' not in c]
        for c in tcols:
            v = D[c].tolist()
            bad = [(i, j) for i in range(n) for j in range(i + 1, n) if num[i] == num[j] and str(v[i]) != str(v[j])]
            if bad:
                probs.append(f'transformed column {c!r} gives rows {bad[0]} (same numeric cell {num[bad[0][0]]!r}) different values {v[bad[0][0]]!r}, {v[bad[0][1]]!r}: not row-aligned')
                break
    mv = [c for c in names if c.startswith('MULTIEX-') and ' AND ' not in c]
    if ex != 'False':
        expm = {}
        for feat in ex.split(';'):
            vals = [r[COLS.index(feat)] for r in rows]
            toks = [O.tokens(v) for v in vals]
            for t in sorted({t for r in toks for t in r} - {'', '{}'}):
                expm[f'MULTIEX-{feat}-{t}'] = ['1' if t in toks[i] else '' for i in range(n)]
        if sorted(mv) != sorted(expm):
            probs.append(f'multi-value columns {sorted(mv)} vs one per token of each exploded feature {sorted(expm)}')
        else:
            for k, v in expm.items():
                if D[k].tolist() != v:
                    probs.append(f'{k} is not the presence indicator of its token in its own feature: {D[k].tolist()} vs {v}')
    elif mv:
        probs.append('multi-value columns although expansion is off')
    sf = [c for c in names if c.startswith('SUBFEATURE') and ' AND ' not in c]
    exp = {}
    entries = [] if sub == 'False' else sub.split(';')
    if 'fa->fb' in entries:
        for v in dict.fromkeys(fb):
            exp['SUBFEATURE-fa&' + v] = [(fa[i] + 'AND' + fb[i]) if fb[i] == v else '' for i in range(n)]
    if 'fb<->fa' in entries:
        for y in dict.fromkeys(fa):
            for x in dict.fromkeys(fb):
                exp['SUBFEATURE|fb|fa-' + x + '&' + y] = ['1' if (fb[i] == x and fa[i] == y) else '0' for i in range(n)]
    if sorted(sf) != sorted(exp) or any(D[k].tolist() != v for k, v in exp.items() if k in names):
        probs.append(f'sub-feature columns {sf} for the mapping {sub!r}: one-sided ones must carry fa+"AND"+fb exactly where fb has the value, two-sided ones must be the indicator of their value pair; expected {sorted(exp)}')
    ctrl = [c for c in names if c.startswith('CONTROL-') and ' AND ' not in c]
    if noise == 'True':
        if 'CONTROL-target' not in names or D['CONTROL-target'].tolist() != [r[COLS.index('label')] for r in rows]:
            probs.append('CONTROL-target does not replicate the label column')
        if len(ctrl) < 5:
            probs.append(f'only {len(ctrl)} control columns')
    elif ctrl:
        probs.append('control columns although noise baselines are off')
    inter = [c for c in names if ' AND ' in c]
    if order == 1 and inter:
        probs.append('interaction columns although the interaction order is 1')
    if order == 2:
        base = [c for c in names if ' AND ' not in c and not c.startswith('CONTROL-') and c != 'label']
        for c in inter:
            p = c.split(' AND ')
            if len(p) != 2 or p[0] not in names or p[1] not in names:
                probs.append(f'interaction column {c!r} is not named after two columns of the batch')
                continue
            for i in range(n):
                for j in range(n):
                    same = (str(D[p[0]].iloc[i]), str(D[p[1]].iloc[i])) == (str(D[p[0]].iloc[j]), str(D[p[1]].iloc[j]))
                    if (D[c].iloc[i] == D[c].iloc[j]) != same:
                        probs.append(f'interaction column {c!r} does not represent the joint values of its constituents on rows {i},{j}')
                        break
                else:
                    continue
                break
    return probs


def run_pipeline(job):
    loader.record_functions('outrank/core_ranking.py', ['compute_batch_ranking', 'compute_expanded_multivalue_features', 'compute_subfeatures', 'compute_combined_features', 'include_noisy_features', 'enrich_with_transformations'])
    loader.record_functions('outrank/feature_transformations/ranking_transformers.py', ['FeatureTransformerNoise.construct_new_features'])
    st = {}

    def setup(ctx):
        st['a'] = [z3.Int(f'a{i}') for i in range(2)]
        npool = len(FA_POOL) if job.get('tier') == 'thorough' else 3
        for v in st['a']:
            ctx.assume(v >= 0, v < npool)
        st['flags'] = z3.Int('flags')
        ctx.assume(st['flags'] >= 0, st['flags'] < len(FLAGS))
        st['num'] = [z3.Int(f'num{i}') for i in range(1)]
        for v in st['num']:
            ctx.assume(v >= 0, v < len(NUM_POOL))
        for k, v in job['pins'].items():
            ctx.assume(z3.Int(k) == v)

    def body(ctx, out):
        fi = int(SInt(st['flags'], 0, len(FLAGS) - 1))
        cells = [FA_POOL[int(SInt(v, 0, len(FA_POOL) - 1))] for v in st['a']]
        if FLAGS[fi][4] == 'none':
            ctx.assume(st['num'][0] == 0)      # the numeric cells only matter to the transformers
        nums = [NUM_POOL[int(SInt(v, 0, len(NUM_POOL) - 1))] for v in st['num']]
        rows = [[cells[0], 'x', FC[0], '1', '0'], [cells[1], 'y', FC[1], '2', '1'], ['b', 'x', FC[2], nums[0], '0']]
        w = {'cond': 'pipeline', 'fn': 'pipeline', 'rows': rows, 'flags': list(FLAGS[fi])}
        try:
            probs = check_pipeline(drive_pipeline(rows, FLAGS[fi]), rows, FLAGS[fi])
        except Exception as e:
            import traceback
            tb = traceback.extract_tb(e.__traceback__)[-1]
            probs = [f'{type(e).__name__}: {e} (in {tb.name})']
        if probs or out.twin:
            out.concrete_fail(w, probs[0] if probs else 'twin')
        else:
            out.concrete_ok()
        out.sample({'rows': rows, 'flags': list(FLAGS[fi])})
    return hutil.run_symx(job, setup, body)


AMP_A = ['r&b', 'r', 'a']
AMP_B = ['a', 'b&a', 'b']


def twosided_probs(rows):
    """real compute_subfeatures('fa<->fb') on real pandas with values that contain '&': every emitted column must be the 0/1 indicator
    of SOME value pair that renders to its name, and every observed pair's name must be present"""
    import pandas as pd
    import outrank.core_ranking as cr
    PB = types.SimpleNamespace(set_description=lambda *a, **k: None)
    args = types.SimpleNamespace(subfeature_mapping='fa<->fb', explode_multivalue_features='False', missing_value_symbols=',{}')
    D = cr.compute_subfeatures(pd.DataFrame(rows, columns=['fa', 'fb']), None, args, PB)
    n = len(rows)
    probs = []
    if list(D.columns[:2]) != ['fa', 'fb'] or D['fa'].tolist() != [r[0] for r in rows] or D['fb'].tolist() != [r[1] for r in rows]:
        return ['original columns changed']
    va, vb = list(dict.fromkeys(r[0] for r in rows)), list(dict.fromkeys(r[1] for r in rows))
    byname = {}
    for y in vb:
        for x in va:
            byname.setdefault('SUBFEATURE|fa|fb-' + x + '&' + y, []).append((x, y))
    new = list(D.columns[2:])
    if sorted(new) != sorted(byname):
        probs.append(f'two-sided columns {sorted(new)} vs names of the value pairs {sorted(byname)}')
    for nm in new:
        col = D[nm].tolist()
        if nm in byname and not any(col == ['1' if (rows[i][0] == x and rows[i][1] == y) else '0' for i in range(n)] for x, y in byname[nm]):
            probs.append(f'{nm!r} = {col} is not the indicator of any value pair that renders to this name {byname[nm]} (rows {rows})')
    return probs


def run_amp(job):
    loader.use_repo_on_syspath()
    loader.record_functions('outrank/core_ranking.py', ['compute_subfeatures'])
    st = {}

    def setup(ctx):
        st['c'] = [z3.Int(f'c{i}') for i in range(6)]
        for v in st['c']:
            ctx.assume(v >= 0, v < 3)

    def body(ctx, out):
        idx = [int(SInt(v, 0, 2)) for v in st['c']]
        rows = [[AMP_A[idx[2 * i]], AMP_B[idx[2 * i + 1]]] for i in range(3)]
        w = {'cond': 'twosided-amp', 'fn': 'twosided-amp', 'rows': rows}
        try:
            probs = twosided_probs(rows)
        except Exception as e:
            probs = [f'{type(e).__name__}: {e}']
        if probs or out.twin:
            out.concrete_fail(w, probs[0] if probs else 'twin')
        else:
            out.concrete_ok()
        out.sample({'rows': rows})
    return hutil.run_symx(job, setup, body)


def run_job(job):
    if job['cond'] == 'twosided-amp':
        return run_amp(job)
    return run_pipeline(job) if job['cond'] == 'pipeline' else _ch_run(job)


def replay(w):
    loader.use_repo_on_syspath()
    if w['fn'] == 'twosided-amp':
        try:
            probs = twosided_probs(w['rows'])
        except Exception as e:
            return {'reproduced': True, 'signature': f'C11:twosided-amp:exception:{type(e).__name__}', 'what': f'{w["rows"]}: {type(e).__name__}: {e}'}
        if probs:
            return {'reproduced': True, 'signature': 'C11:twosided-amp', 'what': probs[0][:500]}
        return {'reproduced': False, 'what': 'indicator of a value pair'}
    if w['fn'] == 'pipeline':
        try:
            probs = check_pipeline(drive_pipeline(w['rows'], tuple(w['flags'])), w['rows'], tuple(w['flags']))
        except Exception as e:
            import traceback
            tb = traceback.extract_tb(e.__traceback__)[-1]
            return {'reproduced': True, 'signature': f'C11:pipeline:exception:{type(e).__name__}:{tb.name}', 'what': f'flags {w["flags"]}, rows {w["rows"]}: {type(e).__name__}: {e} (in {tb.name})'}
        if probs:
            return {'reproduced': True, 'signature': 'C11:pipeline:' + probs[0].split()[0], 'what': f'flags (explode, subfeatures, order, noise, transformers) = {w["flags"]}, rows {w["rows"]}: ' + '; '.join(probs)[:400]}
        return {'reproduced': False, 'what': 'constructed frame as specified'}
    # CrossHair condition: the same oracle evaluated concretely on the REAL module with REAL pandas
    import pandas as pd
    import outrank.core_ranking as cr
    from harness import ch_c11 as O
    args, kw = chharness.call_args(w)
    fn = w['fn']
    PB = types.SimpleNamespace(set_description=lambda *a, **k: None)
    try:
        if fn == 'multivalue':
            cols, rows = ['fa', 'label'], [[args[0], '0'], [args[1], '1']]
            ok = O.check_multivalue(cr.compute_expanded_multivalue_features(pd.DataFrame(rows, columns=cols), None, O.A(), PB), cols, rows, 'fa', ['', '{}'])
        elif fn == 'multivalue_three_rows':
            cols, rows = ['x', 'fa'], [['p', args[0]], ['q', 'a,b'], ['r', args[1]]]
            ok = O.check_multivalue(cr.compute_expanded_multivalue_features(pd.DataFrame(rows, columns=cols), None, O.A(), PB), cols, rows, 'fa', ['', '{}'])
        elif fn == 'onesided':
            cols, rows = ['fa', 'fb'], [[args[0], args[1]], [args[2], args[3]]]
            ok = O.check_onesided(cr.compute_subfeatures(pd.DataFrame(rows, columns=cols), None, O.A(), PB), cols, rows, 'fa', 'fb')
        elif fn == 'onesided_three_rows':
            cols, rows = ['fa', 'other', 'fb'], [['p', '1', args[0]], ['q', '2', 'x'], ['p', '3', args[1]]]
            ok = O.check_onesided(cr.compute_subfeatures(pd.DataFrame(rows, columns=cols), None, O.A(), PB), cols, rows, 'fa', 'fb')
        else:
            cols, rows = ['fa', 'fb'], [[args[0], args[1]], ['a', args[2]]]
            ok = O.check_twosided(cr.compute_subfeatures(pd.DataFrame(rows, columns=cols), None, O.A(subfeature_mapping='fa<->fb'), PB), cols, rows, 'fa', 'fb')
    except Exception as e:
        return {'reproduced': True, 'signature': f'C11:{fn}:exception:{type(e).__name__}', 'what': f'{fn}{tuple(args)}: {type(e).__name__}: {e}'}
    if not ok:
        return {'reproduced': True, 'signature': f'C11:{fn}', 'what': f'{fn}{tuple(args)}: the constructed frame violates the rule (rows {rows})'}
    return {'reproduced': False, 'what': 'rule followed'}
