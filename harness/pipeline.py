"""shared by the pipeline harnesses (C05, C06, C08, C09, C11): the real package imported from the working tree, the real CLI
parser for default arguments, contract stubs for the process pool and the progress bar."""
from __future__ import annotations

import sys

from vlib import loader


def real_modules():
    loader.use_repo_on_syspath()
    import outrank.core_ranking as cr
    import outrank.core_utils as cu
    import outrank.task_ranking as tr
    import outrank.algorithms.importance_estimator as ie
    return cr, cu, tr, ie


_PRISTINE = None
_MUTABLE = (dict, list, set)


def _state_of(mod):
    import copy
    out = {}
    for k, v in vars(mod).items():
        if k.startswith('__') or isinstance(v, type) or callable(v):
            continue
        if isinstance(v, _MUTABLE) or type(v).__name__ in ('Counter', 'defaultdict', 'deque', 'OrderedDict'):
            try:
                out[k] = copy.deepcopy(v)
            except Exception:
                pass
    return out


def snapshot_state(mods):
    return [(m, _state_of(m)) for m in mods]


def restore_state(snap):
    import copy
    for m, st in snap:
        for k, v in st.items():
            setattr(m, k, copy.deepcopy(v))


def fresh_state():
    """module-level state of the ranking modules as right after import (a fresh process): EVERY mutable module-level container,
    whatever its name, so that state a change introduces is reset between runs as well"""
    global _PRISTINE
    cr, cu, tr, ie = real_modules()
    import outrank.feature_transformations.ranking_transformers as rt
    import outrank.algorithms.feature_ranking.ranking_cov_alignment as rc
    if _PRISTINE is None:
        _PRISTINE = snapshot_state([cr, cu, ie, rt, rc])
    restore_state(_PRISTINE)


def cli_args(argv):
    """arguments exactly as the real command-line parser produces them (outrank/__main__.py)"""
    loader.use_repo_on_syspath()
    import outrank.__main__ as m
    cap = {}
    saved = m.outrank_task_conduct_ranking
    m.outrank_task_conduct_ranking = lambda a: cap.setdefault('a', a)
    old = sys.argv
    sys.argv = ['outrank', '--task', 'ranking'] + list(argv)
    try:
        m.main()
    finally:
        sys.argv = old
        m.outrank_task_conduct_ranking = saved
    return cap['a']


class PB:
    def __init__(self, *a, **k):
        pass

    def set_description(self, *a, **k):
        pass

    def update(self, *a):
        pass

    def close(self):
        pass


class _Res:
    def __init__(self, v):
        self.v = v

    def ready(self):
        return True

    def get(self):
        return self.v


class SerialPool:
    """contract of pathos ProcessingPool.amap/map: results in input order"""

    def __init__(self, *a, ncpus=1, **k):
        self.ncpus = self.nodes = ncpus        # pathos pools expose their size as .ncpus / .nodes; the maps stay order-preserving

    def __enter__(self):
        return self

    def __exit__(self, *a):
        return False

    def amap(self, f, items):
        return _Res([f(x) for x in items])

    def map(self, f, items):
        return [f(x) for x in items]

    imap = map
    uimap = map      # one worker: completion order == input order

    def close(self):
        pass

    def join(self):
        pass


class Logger:
    def __init__(self):
        self.msgs = []

    def info(self, m, *a):
        self.msgs.append(str(m))

    warning = error = debug = info


def frame_builder():
    """how compute_batch_ranking turns the parsed rows of a mini-batch into a frame - the expression is read from the working tree, so a
    harness that feeds the statistics functions directly builds its frames exactly as the pipeline does"""
    import ast
    import pandas as pd
    from vlib import loader
    src = open(loader.repo_path('outrank/core_ranking.py')).read()
    for fn in ast.walk(ast.parse(src)):
        if isinstance(fn, ast.FunctionDef) and fn.name == 'compute_batch_ranking':
            for st in fn.body:
                if isinstance(st, ast.Assign) and isinstance(st.targets[0], ast.Name) and st.targets[0].id == 'input_dataframe' and isinstance(st.value, ast.Call):
                    code = compile(ast.Expression(st.value), '<frame construction>', 'eval')
                    return lambda rows, cols: eval(code, {'pd': pd, 'line_tmp_storage': rows, 'column_descriptions': cols})
    return lambda rows, cols: pd.DataFrame(rows, columns=cols)
