"""C04 - subsampled estimation is memory-safe, deterministic, sample-only (symx with an uninitialised-memory model)."""
from __future__ import annotations

import json
import subprocess
import sys
from fractions import Fraction as F

import z3

from harness import kernel as KM
from vlib import hutil, loader, symx, xnp
from vlib.symx import SInt, SReal

ID = 'C04'

MANIFEST = {
    'engine': 'symx',
    'text': 'Bounded symbolic model checking of the real stratified_subsampling / estimator source with the contents of np.empty modelled as arbitrary values: for all vectors within the bound and all ratios k/8, z3 shows (1) no never-written cell of the index buffer is read and every index is in range, (2) the sampled rows are exactly the per-stratum prefixes with quota floor(floor(r*n)/#values) (all rows when 0), (3) the score is unchanged for every feature vector that agrees on the sampled rows. (1) implies the result cannot depend on allocator history. Memory-safety counterexamples are replayed in fresh interpreters after poisoning numba\'s allocator with different byte patterns. Targets with 33..64 strata are explored with a concrete target vector, a symbolic feature vector and solver-chosen tie orders of every sort not requested stable; the sample is captured through the estimator itself, whatever the signature of the internal sampling helper.',
    'note': 'Targets with 33..64 strata are covered with a concrete target, a symbolic feature vector and solver-chosen tie orders for unstable sorts. The real allocator is replaced by "any bytes"; ratios restricted to k/8 (exact in float32 so int(r*n) agrees with the compiled code); exact reals; n<=4 quick, n<=5/6 thorough.',
    'technique': 'symbolic execution of the real Python source with z3, uninitialised cells as fresh unconstrained integers, out-of-range/uninitialised reads as reachability queries',
}

BOUNDS = {
    'quick': {'memsafe': [(3, 2), (4, 2), (4, 3), (5, 2), (6, 2)], 'spec': [(4, 2), (4, 3)], 'sample-only': [(4, 2), (3, 3)], 'forward': [(0, 0)]},
    'thorough': {'memsafe': [(4, 3), (5, 3), (6, 2), (4, 4), (7, 2), (6, 3)], 'spec': [(5, 3), (6, 2), (6, 3)], 'sample-only': [(4, 3), (5, 2), (5, 3), (6, 2)], 'forward': [(0, 0)]},
}
RATIOS = [1, 2, 3, 4, 5, 6, 7]
# high-cardinality targets (more strata than any small symbolic bound reaches): the target is concrete, the feature vector symbolic,
# and the tie order of every sort that is not requested stable is a solver decision (numpy's default quicksort guarantees nothing)
MANY = {'quick': [(33, [0, 0, 5], (15, 16)), (40, [7, 7], (31, 32))],
        'thorough': [(33, [0, 0, 5], (15, 16)), (40, [7, 7], (31, 32)), (34, [1, 1, 1, 2, 33], (31, 32)), (64, [63, 0, 63], (63, 64)), (33, list(range(33)) + [4], (15, 16))]}

INFO = {
    'engine': 'symx + z3',
    'explanation': 'Vectors symbolic, ratio r=k/8 per job, np.empty cells = fresh unconstrained integers (all allocator histories). Reachability of an uninitialised/out-of-range read, '
                   'equality of the sampled rows with the per-stratum-prefix specification and independence of the score from unsampled feature values are z3 queries per path.',
    'bounds': {t: dict({c: [f'n={n},codes<{k},r in k/8' for n, k in v] for c, v in b.items()}, **{'many-strata': [f'{nv} strata + rows {e}, r={a}/{b}, feature vector in {{0,1}}^n' for nv, e, (a, b) in MANY[t]]}) for t, b in BOUNDS.items()},
    'outside': ['ratios off the k/8 grid', 'the real allocator (any-bytes model instead)', 'float32 rounding'],
    'assumptions': ['stand-ins and transforms as in C01', 'np.empty(n) returns n cells holding arbitrary values', 'stratified_subsampling is compiled without boundscheck: an out-of-range index is a wild read, not an IndexError'],
    'job_timeout': {'quick': 240, 'thorough': 2400},
    'max_replays': 12,
}


def jobs(tier):
    KM.warm()
    KM.kernel()
    out = []
    for cond, lst in BOUNDS[tier].items():
        for n, K in lst:
            if cond == 'forward':
                out.append({'cond': cond, 'n': 0, 'K': 0, 'pins': {}, 'label': 'ratio forwarding'})
                for nv, extra, (rn, rd) in MANY[tier]:
                    X = list(range(nv)) + list(extra)
                    out.append({'cond': 'many-strata', 'n': len(X), 'K': nv, 'X': X, 'r': [rn, rd], 'pins': {}, 'weight': 2 ** len(X), 'label': f'{nv} strata, n={len(X)}, r={rn}/{rd}'})
                continue
            for rk in RATIOS:
                if int(F(rk, 8) * n) == 0 and cond != 'memsafe':
                    continue
                for pins in hutil.product_pins([('x0', range(K))]):
                    for corr in ((False, True) if cond == 'sample-only' else (False,)):
                        out.append({'cond': cond, 'n': n, 'K': K, 'rk': rk, 'corr': corr, 'pins': pins, 'weight': K ** n, 'label': f'n={n},K={K},r={rk}/8,{pins},corr={corr}'})
    return out


class _Captured(Exception):
    pass


def run_sampler(Kn, Ya, Xa, r):
    """the sample the estimator works on, obtained through the estimator itself (whatever the internal signature of the sampling
    helper is): the helper's return value is captured and the rest of the call is cut off"""
    orig = Kn['stratified_subsampling']
    box = {}

    def rec(*a, **k):
        box['res'] = orig(*a, **k)
        raise _Captured()
    Kn['stratified_subsampling'] = rec
    try:
        Kn['mutual_info_estimator_numba'](Ya, Xa, r, False)
    except _Captured:
        pass
    finally:
        Kn['stratified_subsampling'] = orig
    if 'res' not in box:
        raise symx.ShimUnsupported('the estimator did not go through stratified_subsampling for a ratio < 1')
    return box['res']


def sampled_terms(X, n, K, rk):
    """z3: sampled[i] per the statement: first q rows of each stratum, q = floor(floor(r*n)/#values); all rows when q == 0"""
    fss = int(F(rk, 8) * n)
    nvals = KM.cnt(z3.Or([X[i] == v for i in range(n)]) for v in range(K))
    q = z3.IntVal(0)
    for d in range(1, K + 1):
        q = z3.If(nvals == d, fss // d, q)
    out = []
    for i in range(n):
        rank = KM.cnt(X[j] == X[i] for j in range(i))
        out.append(z3.Or(q == 0, rank < q))
    return out, q


def run_job(job):
    cond = job['cond']
    if cond == 'forward':
        from harness import C03
        r = C03.run_flag(job)
        return r
    if cond == 'many-strata':
        return run_many(job)
    n, K, rk, corr = job['n'], job['K'], job['rk'], job['corr']
    Kn = KM.kernel()
    r = F(rk, 8)
    st = {}

    def setup(ctx):
        st['X'], st['Y'] = KM.declare_vectors(ctx, n, K, job['pins'])
        st['samp'], st['q'] = sampled_terms(st['X'], n, K, rk)
        if cond == 'sample-only':
            Y2 = [z3.Int(f'yy{i}') for i in range(n)]
            for i, v in enumerate(Y2):
                ctx.assume(v >= 0, v < K)
                ctx.assume(z3.Implies(st['samp'][i], v == st['Y'][i]))
            st['Y2'] = Y2

    def wit(m):
        w = {'cond': cond, 'r': [rk, 8], 'corr': corr, 'Y': [m.eval(v, model_completion=True).as_long() for v in st['Y']],
             'X': [m.eval(v, model_completion=True).as_long() for v in st['X']]}
        if 'Y2' in st:
            w['Y2'] = [m.eval(v, model_completion=True).as_long() for v in st['Y2']]
        return w

    def body(ctx, out):
        Xa, Ya = KM.arrs(st['X'], st['Y'], K)
        Ys, Xs = run_sampler(Kn, Ya, Xa, r)
        unsafe = bool(ctx.uninit)
        if cond == 'memsafe':
            out.never(ctx, z3.BoolVal(bool(ctx.uninit)), wit, 'a never-written cell of the index buffer is read')
            out.never(ctx, z3.Or(ctx.oob) if ctx.oob else z3.BoolVal(False), wit, 'index out of range')
            out.sample({'r': f'{rk}/8', 'n': n, 'decisions': len(ctx.trace)})
            return
        if unsafe and not out.twin:
            out.inconclusive.append('path reads uninitialised memory (reported by memsafe); sample conditions skipped on it')
            return
        if cond == 'spec':
            # the sampled rows, as returned, are exactly the per-stratum prefixes in ascending value order
            X, Y = st['X'], st['Y']
            m = len(Xs)
            cntS = KM.cnt(st['samp'])
            bad = [cntS != m]
            # k-th returned element: value v, rank within stratum r  <=> element i with X[i]==v and rank_i==r sampled
            pos = []
            for i in range(n):
                less = KM.cnt(z3.And(st['samp'][j], z3.Or(X[j] < X[i], z3.And(X[j] == X[i], j < i))) for j in range(n) if j != i)
                pos.append(z3.If(st['q'] == 0, i, less))
            for k in range(m):
                xe, ye = symx.zint(Xs.data[k]), symx.zint(Ys.data[k])
                for i in range(n):
                    bad.append(z3.And(st['samp'][i], pos[i] == k, z3.Or(xe != X[i], ye != Y[i])))
            out.never(ctx, z3.Or(bad), wit, 'sampled rows differ from the per-stratum prefix specification')
            out.sample({'r': f'{rk}/8', 'sample_size': m})
            return
        f = Kn['mutual_info_estimator_numba']
        got = SReal.of(f(KM.arrs(st['X'], st['Y'], K)[1], KM.arrs(st['X'], st['Y'], K)[0], r, corr))
        if ctx.uninit:
            return
        Y2a = xnp.Arr([SInt(e, 0, K - 1) for e in st['Y2']], 'int32')
        got2 = SReal.of(f(Y2a, KM.arrs(st['X'], st['Y'], K)[0], r, corr))
        out.never(ctx, got.z != got2.z, wit, 'score changes when feature values outside the sampled rows change')
        if not out.twin and out.validated < 30 and ctx.check() == 'sat':
            m = ctx.model()
            w = wit(m)
            sym, real = KM.numeric(got.z, m), KM.real_mi(w['Y'], w['X'], rk / 8, corr)
            out.validated += 1
            if real != real or real in (float('inf'), float('-inf')):
                out.candidates.append({'witness': dict(w, label='non-finite score on the compiled kernel')})
            elif not KM.close(sym, real):
                out.error = f'stand-in disagrees with the compiled kernel on {w}: {sym} vs {real}'
            out.sample({'Y': w['Y'], 'X': w['X'], 'r': f'{rk}/8', 'score': real})
    return hutil.run_symx(job, setup, body, wit=wit)


def spec_rows(X, r):
    q = int(int(r * len(X)) / len(set(X)))
    return list(range(len(X))) if q == 0 else [i for v in sorted(set(X)) for i in [j for j in range(len(X)) if X[j] == v][:q]]


def run_many(job):
    X, r = job['X'], F(*job['r'])
    n = len(X)
    Kn = KM.kernel()
    st = {}
    idx = spec_rows(X, r)

    def setup(ctx):
        st['Y'] = [z3.Int(f'y{i}') for i in range(n)]
        for v in st['Y']:
            ctx.assume(v >= 0, v <= 1)

    def wit(m):
        return {'cond': 'many-strata', 'r': job['r'], 'corr': False, 'X': X, 'Y': [m.eval(v, model_completion=True).as_long() for v in st['Y']]}

    def body(ctx, out):
        xnp.UNSTABLE_TIES = True
        try:
            Xa = xnp.Arr(list(X), 'int32')
            Ya = xnp.Arr([SInt(v, 0, 1) for v in st['Y']], 'int32')
            Ys, Xs = run_sampler(Kn, Ya, Xa, r)
        finally:
            xnp.UNSTABLE_TIES = False
        out.never(ctx, z3.BoolVal(bool(ctx.uninit)), wit, 'a never-written cell of the index buffer is read')
        out.never(ctx, z3.Or(ctx.oob) if ctx.oob else z3.BoolVal(False), wit, 'index out of range')
        if ctx.uninit:
            return
        bad = [z3.BoolVal(len(Xs) != len(idx))]
        for k in range(min(len(idx), len(Xs))):
            bad.append(symx.zint(Xs.data[k]) != X[idx[k]])
            bad.append(symx.zint(Ys.data[k]) != st['Y'][idx[k]])
        out.never(ctx, z3.Or(bad), wit, 'sampled rows differ from the per-stratum prefix specification')
        out.sample({'strata': job['K'], 'n': n, 'sample_size': len(Xs)})
    return hutil.run_symx(job, setup, body, wit=wit)


POISON = r'''
import sys, json, numpy as np, numba
sys.path.insert(0, %(repo)r)
from outrank.algorithms.feature_ranking import ranking_mi_numba as K
@numba.njit
def poison(maxsize, val, ival):
    s = 0.0
    for size in range(1, maxsize + 1):
        la = [np.empty(size) for _ in range(30)]
        lb = [np.empty(size, dtype=np.int32) for _ in range(30)]
        lc = [np.empty(size, dtype=np.int64) for _ in range(30)]
        for a in la:
            for i in range(size):
                a[i] = val
        for b in lb:
            for i in range(size):
                b[i] = ival
        for c in lc:
            for i in range(size):
                c[i] = ival
        s += la[0][0] + lb[0][0] + lc[0][0]
    return s
Y = np.array(%(Y)r, dtype=np.int32); X = np.array(%(X)r, dtype=np.int32)
out = []
fv, fc = K.numba_unique(X)
def sample():
    # the sampling helper is internal: its signature may differ between versions; the sample is extra evidence, the score is what counts
    for args in ((Y, X, np.float32(%(r)r), fv), (Y, X, np.float32(%(r)r), fv, fc)):
        try:
            ys, xs = K.stratified_subsampling(*args)
            return [ys.tolist(), xs.tolist()]
        except TypeError:
            continue
    return None
K.mutual_info_estimator_numba(Y, X, np.float32(1.0), %(corr)r)
sample()
poison(2, 0.0, 0)
for rep in range(2):
    poison(%(size)d, %(val)r, %(ival)d)
    smp = sample()
    poison(%(size)d, %(val)r, %(ival)d)
    out.append([float(K.mutual_info_estimator_numba(Y, X, np.float32(%(r)r), %(corr)r)), smp])
print(json.dumps(out))
'''


def poisoned_runs(Y, X, r, corr):
    """scores / exit codes of the real estimator in fresh interpreters after filling freed heap blocks of every small size
    (float64, int32 and int64 arrays of 1..2n+2 cells) with different values"""
    size = 2 * len(X) + 2
    res = []
    for val, ival in ((0.0, 0), (1.0, 1), (3.0, 3), (float(len(X) - 1), len(X) - 1), (1e300, 2 ** 30)):
        code = POISON % dict(repo=loader.REPO, Y=list(Y), X=list(X), size=size, val=val, ival=ival, r=r, corr=bool(corr))
        p = subprocess.run([sys.executable, '-c', code], capture_output=True, text=True, timeout=300)
        if p.returncode != 0:
            res.append(('exit', p.returncode, (p.stderr or '')[-200:]))
        else:
            res.append(('ok', json.loads(p.stdout.strip().splitlines()[-1])))
    return res


def real_sample(K, Yn, Xn, r):
    """(Ys, Xs) from the real sampling helper, or None when its (internal) signature is not one of the known ones"""
    import numpy as np
    fv, fc = K.numba_unique(Xn)
    for args in ((Yn, Xn, np.float32(r), fv), (Yn, Xn, np.float32(r), fv, fc)):
        try:
            return K.stratified_subsampling(*args)
        except TypeError:
            continue
    return None


def sample_only_violation(X, Y, r):
    """the statement's observable: the score must not move when feature values outside the specified sample rows change"""
    idx = set(spec_rows(X, r))
    base = KM.real_mi(Y, X, r, False)
    vals = sorted(set(Y)) + [max(Y) + 1]
    for i in range(len(X)):
        if i in idx:
            continue
        for v in vals:
            if v != Y[i]:
                Y2 = list(Y)
                Y2[i] = v
                b = KM.real_mi(Y2, X, r, False)
                if not KM.close(base, b):
                    return f'r={r}, X={X}: score {base:.6f} for Y={Y} but {b:.6f} for Y={Y2}, which differs only in row {i}, outside the specified sample'
    return None


def replay(w):
    try:
        return _replay(w)
    except Exception as e:  # the real build raised
        return {'reproduced': True, 'signature': f'C04:raises-{type(e).__name__}', 'what': f'the real estimator raises {type(e).__name__}: {str(e)[:200]} on {({k: v for k, v in w.items() if k in ("Y", "X", "r", "corr", "Y2", "map")})}'}


def _replay(w):
    if w['cond'] in ('flag', 'forward'):
        from harness import C03
        r = C03.replay(dict(w, cond='flag'))
        r['signature'] = 'C04:ratio-forwarding'
        return r
    Y, X, corr = w['Y'], w['X'], w['corr']
    r = w['r'][0] / w['r'][1]
    if w['cond'] == 'memsafe':
        # which cells are read uninitialised depends on X and r only; the feature vector is chosen so that a wrong row matters
        n = len(X)
        allruns = []
        for Yv in (Y, list(range(n)), [(i * i) % 3 for i in range(n)]):
            runs = poisoned_runs(Yv, X, r, corr)
            allruns.append(runs)
            vals = set()
            crashed = [x for x in runs if x[0] == 'exit']
            for x in runs:
                if x[0] == 'ok':
                    vals.update((round(v, 6) if v == v and abs(v) != float('inf') else str(v), json.dumps(smp)) for v, smp in x[1])
            if crashed or len(vals) > 1:
                return {'reproduced': True, 'signature': 'C04:uninit-index-buffer',
                        'what': f'mutual_info_estimator_numba(Y={Yv}, X={X}, r={r}, corr={corr}) after heap poisoning: (score, sampled rows) = {sorted(map(str, vals))[:4]}, abnormal exits {len(crashed)} (a never-written cell of the sampling index buffer is used as a row index)',
                        'detail': {'runs': runs}}
        return {'reproduced': False, 'what': f'no dependence on stale heap contents observed: {allruns[0]}'}
    if w['cond'] == 'many-strata':
        # the tie order of an unstable sort is not a function of the witness alone: the witness itself, then the same shape scaled up
        import random as _r
        import numpy as np
        K = KM.real_kernel()
        rng = _r.Random(5)
        tries = [(X, Y)]
        for n2 in (200, 600, 3000):
            X2 = list(range(len(set(X)))) + [rng.randrange(len(set(X))) for _ in range(n2)]
            tries.append((X2, [rng.randrange(2) for _ in X2]))
        for X2, Y2 in tries:
            for rr in ((r,) if X2 is X else (r, 0.5)):
                Xn, Yn = np.array(X2, dtype=np.int32), np.array(Y2, dtype=np.int32)
                res = real_sample(K, Yn, Xn, rr)
                if res is None:
                    v = sample_only_violation(X2, Y2, rr) if len(X2) <= 64 else None
                    if v:
                        return {'reproduced': True, 'signature': 'C04:sample-spec-many-strata', 'what': v}
                    continue
                Ys, Xs = res
                idx = spec_rows(X2, rr)
                exp = ([Y2[i] for i in idx], [X2[i] for i in idx])
                if (list(map(int, Ys)), list(map(int, Xs))) != exp:
                    return {'reproduced': True, 'signature': 'C04:sample-spec-many-strata', 'what': f'stratified_subsampling with {len(set(X2))} strata, n={len(X2)}, r={rr}: the sampled rows are not the per-stratum prefixes (first differing position {next((k for k, (a, b) in enumerate(zip(map(int, Ys), exp[0])) if a != b), len(exp[0]))})'}
        return {'reproduced': False, 'what': 'sample equals specification on the witness and on scaled-up inputs of the same shape'}
    if w['cond'] == 'spec':
        import numpy as np
        K = KM.real_kernel()
        Xn, Yn = np.array(X, dtype=np.int32), np.array(Y, dtype=np.int32)
        res = real_sample(K, Yn, Xn, r)
        if res is None:
            v = sample_only_violation(X, Y, r)
            return {'reproduced': True, 'signature': 'C04:sample-spec', 'what': v} if v else {'reproduced': False, 'what': 'score insensitive to rows outside the specified sample'}
        Ys, Xs = res
        q = int(int(r * len(X)) / len(set(X)))
        idx = list(range(len(X))) if q == 0 else [i for v in sorted(set(X)) for i in [j for j in range(len(X)) if X[j] == v][:q]]
        exp = ([Y[i] for i in idx], [X[i] for i in idx])
        got = (list(map(int, Ys)), list(map(int, Xs)))
        if got != exp:
            return {'reproduced': True, 'signature': 'C04:sample-spec', 'what': f'stratified_subsampling(Y={Y}, X={X}, r={r}) returned {got}, per-stratum prefixes are {exp}'}
        return {'reproduced': False, 'what': 'sample equals specification'}
    Y2 = w['Y2']
    a, b = KM.real_mi(Y, X, r, corr), KM.real_mi(Y2, X, r, corr)
    if not KM.close(a, b):
        q = int(int(r * len(X)) / len(set(X)))
        sig = 'C04:selfpair-test-on-unsampled-rows' if (corr and (X == Y or X == Y2)) else 'C04:sample-only'
        return {'reproduced': True, 'signature': sig, 'what': f'r={r}, corr={corr}, X={X}: score {a:.6f} for Y={Y} but {b:.6f} for Y={Y2}, which differs only outside the sampled rows (quota {q})', 'detail': {'a': a, 'b': b}}
    return {'reproduced': False, 'what': f'{a} == {b}'}
