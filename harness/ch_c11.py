"""CrossHair conditions for C11 (feature construction is additive, row-aligned and follows its stated rule)"""
from __future__ import annotations

import types
from typing import List

from harness import ch_common as CM
import os as _os

from vlib import chsupport, sympd

CR = CM.core_ranking()
PB = chsupport.PB


# thorough tier: one more symbolic character per string (CH_EXTRA=1 is set by the runner)
EXTRA = int(_os.environ.get('CH_EXTRA', '0'))

def tokens(v: str) -> List[str]:
    """tokens of a delimited multi-value cell (',' in CSV sources, '-' in VW sources)"""
    out = []
    cur = ''
    for ch in v:
        if ch == ',' or ch == '-':
            out.append(cur)
            cur = ''
        else:
            cur += ch
    out.append(cur)
    return out


def same_list(a, b) -> bool:
    if len(a) != len(b):
        return False
    for i in range(len(a)):
        if a[i] != b[i]:
            return False
    return True


def check_multivalue(out, cols, rows, feature, missing) -> bool:
    """rows: list of row lists; returns whether `out` = input + one MULTIEX column per non-missing token, '1' exactly where present"""
    n = len(rows)
    ok = same_list(list(out.columns[:len(cols)]), cols)
    for j, c in enumerate(cols):
        ok = ok and same_list(out[c].tolist(), [r[j] for r in rows])
    fi = cols.index(feature)
    toks = [tokens(r[fi]) for r in rows]
    alltok = []
    for r in toks:
        for t in r:
            if t not in alltok and t not in missing:
                alltok.append(t)
    newcols = list(out.columns[len(cols):])
    ok = ok and len(newcols) == len(alltok)
    for t in alltok:
        name = 'MULTIEX-' + feature + '-' + t
        ok = ok and name in newcols
        if name in newcols:
            col = out[name].tolist()
            ok = ok and len(col) == n
            for i in range(min(n, len(col))):
                ok = ok and col[i] == ('1' if t in toks[i] else '')
    return ok


def check_onesided(out, cols, rows, a, b) -> bool:
    n = len(rows)
    ok = same_list(list(out.columns[:len(cols)]), cols)
    for j, c in enumerate(cols):
        ok = ok and same_list(out[c].tolist(), [r[j] for r in rows])
    ia, ib = cols.index(a), cols.index(b)
    vals = []
    for r in rows:
        if r[ib] not in vals:
            vals.append(r[ib])
    newcols = list(out.columns[len(cols):])
    ok = ok and len(newcols) == len(vals)
    for v in vals:
        name = 'SUBFEATURE-' + a + '&' + v
        ok = ok and name in newcols
        if name in newcols:
            col = out[name].tolist()
            ok = ok and len(col) == n
            for i in range(min(n, len(col))):
                ok = ok and col[i] == ((rows[i][ia] + 'AND' + rows[i][ib]) if rows[i][ib] == v else '')
    return ok


def check_twosided(out, cols, rows, a, b) -> bool:
    """(values must not contain '&', so that a column name identifies its value pair)"""
    n = len(rows)
    ok = same_list(list(out.columns[:len(cols)]), cols)
    for j, c in enumerate(cols):
        ok = ok and same_list(out[c].tolist(), [r[j] for r in rows])
    ia, ib = cols.index(a), cols.index(b)
    va, vb = [], []
    for r in rows:
        if r[ia] not in va:
            va.append(r[ia])
        if r[ib] not in vb:
            vb.append(r[ib])
    newcols = list(out.columns[len(cols):])
    ok = ok and len(newcols) == len(va) * len(vb)
    for y in vb:
        for x in va:
            nm = 'SUBFEATURE|' + a + '|' + b + '-' + x + '&' + y
            ok = ok and nm in newcols
            if nm in newcols:
                col = out[nm].tolist()
                ok = ok and len(col) == n
                for i in range(min(n, len(col))):
                    ok = ok and col[i] == ('1' if (rows[i][ia] == x and rows[i][ib] == y) else '0')
    return ok


def A(**k):
    d = dict(explode_multivalue_features='fa', missing_value_symbols=',{}', subfeature_mapping='fa->fb')
    d.update(k)
    return types.SimpleNamespace(**d)


def multivalue(v0: str, v1: str) -> bool:
    """
    pre: len(v0) <= 2 + EXTRA and len(v1) <= 1 + EXTRA
    pre: all(ch in 'ab,-' for ch in v0 + v1)
    post: _
    """
    chsupport.tick()
    cols, rows = ['fa', 'label'], [[v0, '0'], [v1, '1']]
    out = CR['compute_expanded_multivalue_features'](sympd.DataFrame(rows, columns=cols), None, A(), PB())
    return check_multivalue(out, cols, rows, 'fa', ['', '{}'])


def multivalue_three_rows(v0: str, v2: str) -> bool:
    """
    pre: len(v0) <= 3 + EXTRA and len(v2) <= 1 + EXTRA
    pre: all(ch in 'ab,' for ch in v0 + v2)
    post: _
    """
    chsupport.tick()
    cols, rows = ['x', 'fa'], [['p', v0], ['q', 'a,b'], ['r', v2]]
    out = CR['compute_expanded_multivalue_features'](sympd.DataFrame(rows, columns=cols), None, A(), PB())
    return check_multivalue(out, cols, rows, 'fa', ['', '{}'])


def onesided(a0: str, b0: str, a1: str, b1: str) -> bool:
    """
    pre: len(a0) <= 1 + EXTRA and len(b0) <= 1 + EXTRA and len(a1) <= 1 + EXTRA and len(b1) <= 1 + EXTRA
    pre: all(ch in 'ab&' for ch in a0 + b0 + a1 + b1)
    post: _
    """
    chsupport.tick()
    cols, rows = ['fa', 'fb'], [[a0, b0], [a1, b1]]
    out = CR['compute_subfeatures'](sympd.DataFrame(rows, columns=cols), None, A(), PB())
    return check_onesided(out, cols, rows, 'fa', 'fb')


def onesided_three_rows(b0: str, b2: str) -> bool:
    """
    pre: len(b0) <= 2 + EXTRA and len(b2) <= 2 + EXTRA
    pre: all(ch in 'xy' for ch in b0 + b2)
    post: _
    """
    chsupport.tick()
    cols, rows = ['fa', 'other', 'fb'], [['p', '1', b0], ['q', '2', 'x'], ['p', '3', b2]]
    out = CR['compute_subfeatures'](sympd.DataFrame(rows, columns=cols), None, A(), PB())
    return check_onesided(out, cols, rows, 'fa', 'fb')


def twosided(a0: str, b0: str, b1: str) -> bool:
    """
    pre: len(a0) <= 1 + EXTRA and len(b0) <= 1 + EXTRA and len(b1) <= 1 + EXTRA
    pre: all(ch in 'ab' for ch in a0 + b0 + b1)
    post: _
    """
    chsupport.tick()
    cols, rows = ['fa', 'fb'], [[a0, b0], ['a', b1]]
    out = CR['compute_subfeatures'](sympd.DataFrame(rows, columns=cols), None, A(subfeature_mapping='fa<->fb'), PB())
    return check_twosided(out, cols, rows, 'fa', 'fb')

# --- vacuity twins (generated by mk_twins.py; same preconditions, postcondition negated) ---


def multivalue_twin(v0: str, v1: str) -> bool:
    """
    pre: len(v0) <= 2 + EXTRA and len(v1) <= 1 + EXTRA
    pre: all(ch in 'ab,-' for ch in v0 + v1)
    post: not _
    """
    return multivalue(v0, v1)


def multivalue_three_rows_twin(v0: str, v2: str) -> bool:
    """
    pre: len(v0) <= 3 + EXTRA and len(v2) <= 1 + EXTRA
    pre: all(ch in 'ab,' for ch in v0 + v2)
    post: not _
    """
    return multivalue_three_rows(v0, v2)


def onesided_twin(a0: str, b0: str, a1: str, b1: str) -> bool:
    """
    pre: len(a0) <= 1 + EXTRA and len(b0) <= 1 + EXTRA and len(a1) <= 1 + EXTRA and len(b1) <= 1 + EXTRA
    pre: all(ch in 'ab&' for ch in a0 + b0 + a1 + b1)
    post: not _
    """
    return onesided(a0, b0, a1, b1)


def onesided_three_rows_twin(b0: str, b2: str) -> bool:
    """
    pre: len(b0) <= 2 + EXTRA and len(b2) <= 2 + EXTRA
    pre: all(ch in 'xy' for ch in b0 + b2)
    post: not _
    """
    return onesided_three_rows(b0, b2)


def twosided_twin(a0: str, b0: str, b1: str) -> bool:
    """
    pre: len(a0) <= 1 + EXTRA and len(b0) <= 1 + EXTRA and len(b1) <= 1 + EXTRA
    pre: all(ch in 'ab' for ch in a0 + b0 + b1)
    post: not _
    """
    return twosided(a0, b0, b1)
