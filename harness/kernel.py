"""shared by C01-C04: the MI kernel loaded from the working tree under symx, z3 reference formulas written
from the textbook definitions, and concrete oracles for replays (Counter + math.log)."""
from __future__ import annotations

import math
from collections import Counter
from fractions import Fraction as F

import z3

from vlib import loader, symx, xnp
from vlib.symx import Lk, SInt, SReal

REL = 'outrank/algorithms/feature_ranking/ranking_mi_numba.py'
_K = None


def kernel():
    global _K
    if _K is None:
        _K = loader.load(REL, shims={'numpy': xnp, 'numba': loader.numba_stub()}, div=True, ifconv=True,
                         record=['numba_unique', 'compute_conditional_entropy', 'compute_entropies', 'stratified_subsampling', 'mutual_info_estimator_numba'])
    return _K


def cnt(conds):
    conds = list(conds)
    if not conds:
        return z3.IntVal(0)
    return z3.Sum([z3.If(c, 1, 0) for c in conds])


def declare_vectors(ctx, n, K, pins=None, names=('x', 'y'), vals=None):
    X = [z3.Int(f'{names[0]}{i}') for i in range(n)]
    Y = [z3.Int(f'{names[1]}{i}') for i in range(n)]
    for v in X + Y:
        if vals is None:
            ctx.assume(v >= 0, v < K)
        else:
            ctx.assume(z3.Or([v == c for c in vals]))
    for k, v in (pins or {}).items():
        ctx.assume(z3.Int(k) == v)
    return X, Y


def arrs(X, Y, K, vals=None):
    if vals is not None:
        lo, hi = min(vals), max(vals)
        return (xnp.Arr([SInt(e, lo, hi, vals) for e in X], 'int32'), xnp.Arr([SInt(e, lo, hi, vals) for e in Y], 'int32'))
    Xa = xnp.Arr([SInt(e, 0, K - 1) for e in X], 'int32')
    Ya = xnp.Arr([SInt(e, 0, K - 1) for e in Y], 'int32')
    return Xa, Ya


def ref_mi(Xe, Ye, n, K, vals=None):
    """plug-in Shannon MI in nats: sum_{x,y} (n_xy/n) (ln n_xy + ln n - ln n_x - ln n_y), as an If-table over the counts"""
    tot = z3.RealVal(0)
    dom = list(vals) if vals is not None else list(range(K))
    for x in dom:
        nx = cnt(Xe[i] == x for i in range(n))
        for y in dom:
            nxy = cnt(z3.And(Xe[i] == x, Ye[i] == y) for i in range(n))
            ny = cnt(Ye[i] == y for i in range(n))
            e = z3.RealVal(0)
            for c in range(1, n + 1):
                for a in range(c, n + 1):
                    for b in range(c, n + 1):
                        val = z3.RealVal(str(F(c, n))) * (Lk(c) + Lk(n) - Lk(a) - Lk(b))
                        e = z3.If(z3.And(nxy == c, nx == a, ny == b), val, e)
            tot = tot + e
    return tot


def ref_entropy(Ve, n, K):
    tot = z3.RealVal(0)
    for v in range(K):
        nv = cnt(Ve[i] == v for i in range(n))
        e = z3.RealVal(0)
        for c in range(1, n + 1):
            e = z3.If(nv == c, -z3.RealVal(str(F(c, n))) * (Lk(c) - Lk(n)), e)
        tot = tot + e
    return tot


def _plogp(k_expr, m_expr, n):
    """-(k/n) ln(k/m) as an If-table over (k, m); 0 when k == 0; strata of size 1 contribute nothing (estimator convention)"""
    e = z3.RealVal(0)
    for m in range(2, n + 1):
        for k in range(1, m + 1):
            val = -z3.RealVal(str(F(k, n))) * (Lk(k) - Lk(m))
            e = z3.If(z3.And(k_expr == k, m_expr == m), val, e)
    return e


def ref_cond_entropy(Xe, Ye, n, K, KY=None):
    """H(Y|X) with the estimator's convention that strata of size 1 are skipped"""
    tot = z3.RealVal(0)
    for x in range(K):
        nx = cnt(Xe[i] == x for i in range(n))
        for y in range(KY or K):
            nxy = cnt(z3.And(Xe[i] == x, Ye[i] == y) for i in range(n))
            tot = tot + _plogp(nxy, nx, n)
    return tot


def ref_corrected(Xe, Ye, n, K):
    """H(Y*|X) - H(Y|X), Y*[i] = Y[(i + n_{X[i]}) mod n]"""
    nx_of = [cnt(Xe[j] == Xe[i] for j in range(n)) for i in range(n)]
    Ystar = []
    for i in range(n):
        e = Ye[0]
        for j in range(n):
            e = z3.If((i + nx_of[i]) % n == j, Ye[j], e)
        Ystar.append(e)
    return ref_cond_entropy(Xe, Ystar, n, K) - ref_cond_entropy(Xe, Ye, n, K)


def numeric(term, m):
    """float value of a real term under model m with the LP constants replaced by the true logarithms"""
    subs = [(e, z3.RealVal(str(F(math.log(p)).limit_denominator(10 ** 12)))) for p, e in symx.LCONST.items()]
    t = z3.substitute(term, *subs) if subs else term
    r = m.eval(t, model_completion=True)
    r = z3.simplify(r)
    if z3.is_rational_value(r):
        return r.numerator_as_long() / r.denominator_as_long()
    if z3.is_algebraic_value(r):
        return float(r.approx(12).as_fraction())
    raise symx.HarnessError(f'cannot evaluate {r}')


# ---- concrete side (real build + independent oracles) -------------------------------------------

def real_kernel():
    loader.use_repo_on_syspath()
    from outrank.algorithms.feature_ranking import ranking_mi_numba as K
    return K


def warm():
    """compile the real kernel once in the parent so forked jobs inherit it; validate the numpy stand-in against numpy"""
    from vlib import selfcheck
    if symx.CTX is None:
        symx.CTX = symx.Ctx()
    selfcheck.check_xnp()
    real_mi([0, 1], [0, 1])


def real_mi(Y, X, r=1.0, corr=False):
    import numpy as np
    K = real_kernel()
    return float(K.mutual_info_estimator_numba(np.array(Y, dtype=np.int32), np.array(X, dtype=np.int32), np.float32(r), bool(corr)))


def c_entropy(V):
    n = len(V)
    return -sum(c / n * math.log(c / n) for c in Counter(V).values())


def c_mi(Y, X):
    n = len(X)
    cx, cy, cxy = Counter(X), Counter(Y), Counter(zip(X, Y))
    return sum(c / n * math.log(c * n / (cx[x] * cy[y])) for (x, y), c in cxy.items())


def c_cond_entropy(Y, X, skip_singletons=True):
    n = len(X)
    cx, cxy = Counter(X), Counter(zip(X, Y))
    tot = 0.0
    for (x, y), c in cxy.items():
        if skip_singletons and cx[x] == 1:
            continue
        tot -= c / n * math.log(c / cx[x])
    return tot


def c_corrected(Y, X):
    n = len(X)
    cx = Counter(X)
    Ystar = [Y[(i + cx[X[i]]) % n] for i in range(n)]
    return c_cond_entropy(Ystar, X) - c_cond_entropy(Y, X)


def close(a, b, tol=2e-4):
    if not (math.isfinite(a) and math.isfinite(b)):
        return False        # a non-finite score is never "equal up to rounding" (the statements speak of finite scores)
    return abs(a - b) <= tol + tol * max(abs(a), abs(b))
