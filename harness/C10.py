"""C10 - interaction features represent joint values faithfully (CrossHair on the real source with symbolic strings)."""
from __future__ import annotations

import itertools
import types

import z3

from vlib import chrun, hutil, loader, symx
from vlib.symx import SInt

ID = 'C10'

MANIFEST = {
    'engine': 'crosshair',
    'text': 'Three parts. (0) symx with z3 STRING variables: the real function runs on two rows whose constituent cells are symbolic strings of bounded length over the whole character set, and z3\'s string solver decides that equal interaction values imply equal value tuples and vice versa (order 2: cells <= 4 characters; order 3: <= 2). (1) CrossHair (symbolic execution with z3, symbolic strings) of the real compute_combined_features / combine_features source on a list-backed pandas stand-in with an injective stand-in for the 64-bit hash: the constituent cell values of two rows are symbolic strings; for every value assignment within the bound CrossHair must confirm over all paths that the interaction column is named by joining the constituent names with " AND ", that its two cells are equal if and only if the two rows agree on every constituent, that the original columns are untouched and that min(cap, C(m,k)) columns are produced. Counterexamples are replayed on the real build (real pandas, real xxhash). (2) The real function on REAL pandas frames with the real hash: two rows x three features, every cell chosen by the solver from an adversarial pool (empty string, values that are prefixes/suffixes of one another), label at every position, orders 2 and 3: equality pattern of every interaction column vs equality of the value tuples (covers library calls the list-backed stand-in does not model). Real-pandas conditions also cover three rows under five kinds of row index, cell values that spell missing-value markers (None, nan, null), and require the interaction values to carry at least 64 bits (replayed by a birthday search on 400000 distinct pairs).',
    'note': 'Per condition <= 4 symbolic characters in total over alphabets of <= 4 letters (incl. empty strings, a digit, a space, a unicode letter); orders 2 and 3 (order 4 outside); 64-bit hash collisions are outside (injective stub, as the statement allows); "score equals the score of the explicit tuple" follows from value equality + C02 and is not separately encoded.',
    'technique': 'CrossHair symbolic execution of the real Python source (z3 string/sequence theory), per condition "Confirmed over all paths" or a replayed counterexample',
}

CONDS = ['pair_small', 'pair_two_cells', 'triple_small', 'capped']
MARK_POOL = ['', 'None', 'nan', 'NaN', 'null', '0']      # ordinary strings that happen to spell a missing-value marker
RPOOL = ['', '1', '11', 'a']      # adversarial cell values for the real-pandas condition: prefixes/suffixes of one another, empty, digits
INFO = {
    'engine': 'crosshair-tool 0.0.110 + z3',
    'explanation': 'see level text',
    'bounds': {'quick': dict({c: 'see precondition in harness/ch_c10.py' for c in CONDS}, **{'real-frames-markers': '2 rows x 2 features, cells from strings that spell missing-value markers (None, nan, NaN, null, 0, empty)', 'real-frames-index': '3 rows (one repeats another), cells from 3 adversarial values, row index default/reversed/rotated/gapped/string labels, orders 2..3, real pandas'}),
               'thorough': dict({c: 'same conditions with one more symbolic character per string, longer per-condition budget' for c in CONDS}, **{'real-frames-index': 'as quick'})},
    'outside': ['interaction order 4', '64-bit hash collisions', 'frames with more than 3 rows (row-wise rule)'],
    'assumptions': ['pandas replaced by the list-backed sympd stand-in (validated differentially)', 'xxhash replaced by an injective stand-in', 'SequenceConcatenation.__eq__ of crosshair 0.0.110 patched (see DESIGN 2.3)'],
    'job_timeout': {'quick': 400, 'thorough': 1500},
    'max_replays': 8,
}
TIMEOUT = {'quick': 90, 'thorough': 600}


def jobs(tier):
    import pandas  # noqa
    from vlib import selfcheck
    selfcheck.check_sympd()      # the pandas stand-in must agree with the real pandas on the operations the code uses
    out = [{'cond': c, 'weight': 10, 'label': c} for c in CONDS]
    for lpos in range(4):
        for order in (2, 3):
            for c0 in range(len(RPOOL)):
                out.append({'cond': 'real-frames', 'pins': {'lpos': lpos, 'order': order, 'c0': c0}, 'weight': 5, 'label': f'label@{lpos},order={order},c0={c0}'})
    for order, ml in ((2, 4), (3, 2)):
        out.append({'cond': 'z3-strings', 'order': order, 'maxlen': ml, 'pins': {}, 'weight': 50, 'label': f'order={order},cells<= {ml} chars'})
    for lpos in range(3):
        out.append({'cond': 'real-frames-markers', 'pins': {'lpos': lpos}, 'weight': 10, 'label': f'2 features with values from {MARK_POOL}, label@{lpos}'})
    for ix in range(len(INDEX_KINDS)):
        for lpos in (0, 3):
            out.append({'cond': 'real-frames-index', 'pins': {'ix': ix, 'lpos': lpos}, 'weight': 8, 'label': f'3 rows, row index {list(INDEX_KINDS)[ix]}, label@{lpos}'})
    # four features, order 3: several candidates share their leading constituents in one call
    for lpos in (0, 4):
        for c0 in range(3):
            for c1 in range(3):
                out.append({'cond': 'real-frames-4', 'pins': {'lpos': lpos, 'order': 3, 'c0': c0, 'c1': c1}, 'weight': 8, 'label': f'4 features,label@{lpos},c0={c0},c1={c1}'})
    return out


INDEX_KINDS = {'default': lambda n: list(range(n)), 'reversed': lambda n: list(range(n))[::-1], 'rotated': lambda n: list(range(1, n)) + [0],
               'gapped': lambda n: [5, 2, 9, 14][:n], 'labels': lambda n: [f'r{i}' for i in range(n)][::-1]}


def real_check(cols, rows, order, cap=100, index='default', earlier=0):
    """real compute_combined_features on real pandas; returns the list of problems"""
    loader.use_repo_on_syspath()
    import pandas as pd
    import outrank.core_ranking as cr
    cr.GLOBAL_PRIOR_COMB_COUNTS.clear()
    df = pd.DataFrame(rows, columns=cols, index=INDEX_KINDS[index](len(rows)))
    args = types.SimpleNamespace(label_column='label', interaction_order=order, reference_model_JSON='', heuristic='MI-numba-randomized', combination_number_upper_bound=cap)
    PB = types.SimpleNamespace(set_description=lambda *a, **k: None)
    try:
        for _ in range(earlier):      # earlier mini-batches of the same run: the fair sampler then hands the candidates out in another order
            cr.compute_combined_features(df.copy(), args, PB)
        out = cr.compute_combined_features(df.copy(), args, PB)
    finally:
        cr.GLOBAL_PRIOR_COMB_COUNTS.clear()
    probs = []
    feats = [c for c in cols if c != 'label']
    if len(out) != len(rows):
        return [f'{len(out)} rows returned for a frame of {len(rows)} rows']
    if list(out.columns[:len(cols)]) != cols or any(out[c].tolist() != df[c].tolist() for c in cols):
        probs.append('original columns changed')
    combos = list(itertools.combinations(feats, order))
    new = list(out.columns[len(cols):])
    if len(new) != min(cap, len(combos)):
        probs.append(f'{len(new)} interaction columns, min(cap, #combinations) = {min(cap, len(combos))}')
    for nm in new:
        parts = tuple(nm.split(' AND '))
        if parts not in combos:
            probs.append(f'column {nm!r} is not named after a combination of the constituents')
            continue
        col = out[nm].tolist()
        # "up to 64-bit hash collisions": a value representation with less than 64 bits of capacity aliases more often than that
        bits = min((len(v) * (4 if all(ch in '0123456789abcdefABCDEF' for ch in v) else 8)) if isinstance(v, str) else 64 for v in col)
        if bits < 64:
            probs.append(f'digest-width: the values of {nm!r} carry at most {bits} bits (e.g. {col[0]!r}); distinct value tuples then alias far more often than 64-bit collisions')
        for i, j in itertools.combinations(range(len(rows)), 2):
            t0, t1 = tuple(rows[i][cols.index(p)] for p in parts), tuple(rows[j][cols.index(p)] for p in parts)
            if (col[i] == col[j]) != (t0 == t1):
                probs.append(f'{nm!r}: value tuples {t0} and {t1} (rows {i}, {j}) ' + ('differ but get the same interaction value' if t0 != t1 else 'are equal but get different interaction values'))
                break
    return probs


def run_real(job):
    loader.record_functions('outrank/core_ranking.py', ['compute_combined_features', 'prior_combinations_sample'])
    st = {}
    NF = 4 if job['cond'] == 'real-frames-4' else (2 if job['cond'] == 'real-frames-markers' else 3)
    IX = job['cond'] == 'real-frames-index'      # three rows (the third repeats one of the first two) under every kind of row index
    POOL = RPOOL[:3] if NF == 4 or IX else (MARK_POOL if NF == 2 else RPOOL)
    KINDS = list(INDEX_KINDS)

    def setup(ctx):
        st['c'] = [z3.Int(f'c{i}') for i in range(2 * NF)]
        for v in st['c']:
            ctx.assume(v >= 0, v < len(POOL))
        st['lpos'], st['order'] = z3.Int('lpos'), z3.Int('order')
        ctx.assume(st['lpos'] >= 0, st['lpos'] <= NF, st['order'] >= 2, st['order'] <= (2 if NF == 2 else 3))
        st['hist'] = z3.Int('hist')      # (cap, earlier mini-batches): (100, 0), (2, 1), (3, 2)
        ctx.assume(st['hist'] >= 0, st['hist'] <= (2 if NF == 4 else 0))
        st['ix'], st['dup'] = z3.Int('ix'), z3.Int('dup')
        ctx.assume(st['ix'] >= 0, st['ix'] < len(KINDS), st['dup'] >= 0, st['dup'] <= 1)
        if not IX:
            ctx.assume(st['ix'] == 0, st['dup'] == 0)
        for k, v in job['pins'].items():
            ctx.assume(z3.Int(k) == v)

    def body(ctx, out):
        cells = [POOL[int(SInt(v, 0, len(POOL) - 1))] for v in st['c']]
        lpos, order = int(SInt(st['lpos'], 0, NF)), int(SInt(st['order'], 2, 3))
        cols = ['fa', 'fb', 'fc', 'fd'][:NF]
        cols.insert(lpos, 'label')
        rows = [cells[:NF], cells[NF:]]
        for r, lab in zip(rows, ('0', '1')):
            r.insert(lpos, lab)
        index = 'default'
        if IX:
            index = KINDS[int(SInt(st['ix'], 0, len(KINDS) - 1))]
            rows.insert(0, list(rows[int(SInt(st['dup'], 0, 1))]))      # rows: copy, r0, r1
        cap, earlier = [(100, 0), (2, 1), (3, 2)][int(SInt(st['hist'], 0, 2))]
        w = {'cond': 'real-frames', 'fn': 'real-frames', 'cols': cols, 'rows': rows, 'order': order, 'index': index, 'cap': cap, 'earlier': earlier}
        try:
            probs = real_check(cols, rows, order, index=index, cap=cap, earlier=earlier)
        except Exception as e:
            probs = [f'{type(e).__name__}: {e}']
        if probs or out.twin:
            out.concrete_fail(w, probs[0] if probs else 'twin')
        else:
            out.concrete_ok()
        out.sample({'cols': cols, 'rows': rows, 'order': order})
    return hutil.run_symx(job, setup, body)


def run_z3strings(job):
    """the real compute_combined_features on two rows whose constituent cells are z3 STRING variables of bounded length over the whole
    character set: equal interaction values <=> equal value tuples, decided by z3's string solver"""
    from harness import ch_common as CM
    from vlib import chsupport, sympd
    from vlib.symx import SStr
    CR = CM.core_ranking()
    order, L = job['order'], job['maxlen']
    cols = ['fa', 'fb', 'fc'][:order]
    st = {}

    def setup(ctx):
        st['v'] = [[z3.String(f'{c}{r}') for c in cols] for r in range(2)]
        for row in st['v']:
            for x in row:
                ctx.assume(z3.Length(x) <= L)

    def wit(m):
        def sv(x):
            r = m.eval(x, model_completion=True)
            return r.as_string() if hasattr(r, 'as_string') else str(r)
        rows = [[sv(x) for x in row] for row in st['v']]
        return {'cond': 'z3-strings', 'fn': 'real-frames', 'cols': cols + ['label'], 'rows': [rows[0] + ['0'], rows[1] + ['1']], 'order': order}

    def body(ctx, out):
        CR['GLOBAL_PRIOR_COMB_COUNTS'].clear()
        rows = [[SStr(x, L) for x in row] for row in st['v']]
        df = sympd.DataFrame({c: [rows[0][i], rows[1][i]] for i, c in enumerate(cols)} | {'label': ['0', '1']})
        args = types.SimpleNamespace(label_column='label', interaction_order=order, reference_model_JSON='', heuristic='MI-numba-randomized', combination_number_upper_bound=100)
        res = CR['compute_combined_features'](df, args, chsupport.PB())
        name = ' AND '.join(cols)
        bad = [z3.BoolVal(name not in list(res.columns))]
        if name in list(res.columns):
            col = res[name].tolist()
            same = z3.And([st['v'][0][i] == st['v'][1][i] for i in range(order)])
            a, b = col[0], col[1]
            eq = (a.e == b.e) if isinstance(a, SStr) and isinstance(b, SStr) else z3.BoolVal(a == b)
            bad.append(z3.Xor(eq, same))
        out.never(ctx, z3.Or(bad), wit, 'equal interaction values for different value tuples (or different values for equal tuples)')
        out.sample({'order': order, 'max cell length': L, 'alphabet': 'all characters'})
    return hutil.run_symx(job, setup, body, wit=wit)


def run_job(job):
    if job['cond'] == 'z3-strings':
        return run_z3strings(job)
    if job['cond'] in ('real-frames', 'real-frames-4', 'real-frames-index', 'real-frames-markers'):
        return run_real(job)
    fname = job['cond'] + ('_twin' if job.get('twin') else '')
    r = chrun.run_condition('harness.ch_c10', fname, TIMEOUT[job['tier']], loader.REPO, extra_env={'CH_EXTRA': '1' if job['tier'] == 'thorough' else '0'})
    loader.record_functions('outrank/core_ranking.py', ['compute_combined_features', 'prior_combinations_sample'])
    return chrun.job_result(job, r, fname)


def frame_for(fn, call):
    a = call['args'] + [call['kwargs'][k] for k in call['kwargs']]
    if fn == 'pair_small':
        return ['fa', 'fb'], [[a[0], a[1]], [a[2], a[3]]], 2, 100
    if fn == 'pair_two_cells':
        return ['fa', 'fb'], [[a[0], '1'], ['1', a[1]]], 2, 100
    if fn == 'triple_small':
        return ['fa', 'fb', 'fc'], [[a[0], a[1], a[2]], [a[3], '1', '']], 3, 100
    return ['fa', 'fb', 'fc'], [[a[0], '1', 'x'], ['1', a[0], 'x']], 2, a[1]


def replay(w):
    loader.use_repo_on_syspath()
    import pandas as pd
    import outrank.core_ranking as cr
    if w['fn'] == 'real-frames':
        try:
            probs = real_check(w['cols'], w['rows'], w['order'], index=w.get('index', 'default'), cap=w.get('cap', 100), earlier=w.get('earlier', 0))
        except Exception as e:
            import traceback
            tb = traceback.extract_tb(e.__traceback__)[-1]
            return {'reproduced': True, 'signature': f'C10:exception:{type(e).__name__}:{tb.name}', 'what': f'compute_combined_features on columns {w["cols"]}, rows {w["rows"]}: {type(e).__name__}: {e}'}
        if probs and all(p.startswith('digest-width') for p in probs):
            # confirm on the real build: a birthday search over distinct value pairs must actually find aliased tuples
            n = 400000
            big = pd.DataFrame({'user': [f'{7000000000000000 + 7919 * i:016d}' for i in range(n)], 'site': [f's{i % 977}' for i in range(n)], 'label': ['0', '1'] * (n // 2)})
            args = types.SimpleNamespace(label_column='label', interaction_order=2, reference_model_JSON='', heuristic='MI-numba-randomized', combination_number_upper_bound=100)
            cr.GLOBAL_PRIOR_COMB_COUNTS.clear()
            o = cr.compute_combined_features(big, args, types.SimpleNamespace(set_description=lambda *a, **k: None))
            cr.GLOBAL_PRIOR_COMB_COUNTS.clear()
            distinct = o['user AND site'].nunique()
            if distinct < n:
                return {'reproduced': True, 'signature': 'C10:digest-width', 'what': probs[0] + f'; on a frame of {n} distinct (user, site) pairs the interaction column has only {distinct} distinct values'}
            return {'reproduced': False, 'what': f'{n} distinct pairs give {distinct} distinct interaction values'}
        if probs:
            sig = 'C10:tuple-aliasing-by-concatenation' if any('get the same interaction value' in p for p in probs) else 'C10:' + probs[0].split()[0]
            return {'reproduced': True, 'signature': sig, 'what': f'columns {w["cols"]}, rows {w["rows"]}, order {w["order"]}' + (f', row index {INDEX_KINDS[w["index"]](len(w["rows"]))}' if w.get('index', 'default') != 'default' else '') + (f', cap {w["cap"]}, after {w["earlier"]} earlier mini-batch(es)' if w.get('cap', 100) != 100 else '') + ': ' + '; '.join(probs)[:400]}
        return {'reproduced': False, 'what': 'faithful'}
    cols, rows, order, cap = frame_for(w['fn'], w['call'])
    cr.GLOBAL_PRIOR_COMB_COUNTS.clear()
    df = pd.DataFrame({c: [rows[0][i], rows[1][i]] for i, c in enumerate(cols)} | {'label': ['0', '1']})
    args = types.SimpleNamespace(label_column='label', interaction_order=order, reference_model_JSON='', heuristic='MI-numba-randomized', combination_number_upper_bound=cap)

    class PB:
        def set_description(self, *a):
            pass
    try:
        out = cr.compute_combined_features(df.copy(), args, PB())
    except Exception as e:
        import traceback
        tb = traceback.extract_tb(e.__traceback__)[-1]
        return {'reproduced': True, 'signature': f'C10:exception:{type(e).__name__}:{tb.name}', 'what': f'compute_combined_features on rows {rows}: {type(e).__name__}: {e} (in {tb.name})'}
    finally:
        cr.GLOBAL_PRIOR_COMB_COUNTS.clear()
    probs = []
    if list(out.columns[:len(cols) + 1]) != cols + ['label'] or any(out[c].tolist() != df[c].tolist() for c in cols + ['label']):
        probs.append('original columns changed')
    combos = list(itertools.combinations(cols, order))
    new = list(out.columns[len(cols) + 1:])
    if len(new) != min(cap, len(combos)):
        probs.append(f'{len(new)} interaction columns, min(cap, #combinations) = {min(cap, len(combos))}')
    for nm in new:
        parts = tuple(nm.split(' AND '))
        if parts not in combos:
            probs.append(f'column {nm!r} is not named after a combination of the constituents')
            continue
        col = out[nm].tolist()
        same = all(rows[0][cols.index(p)] == rows[1][cols.index(p)] for p in parts)
        if (col[0] == col[1]) != same:
            t0, t1 = tuple(rows[0][cols.index(p)] for p in parts), tuple(rows[1][cols.index(p)] for p in parts)
            probs.append(f'{nm!r}: value tuples {t0} and {t1} ' + ('differ but get the same interaction value' if not same else 'are equal but get different interaction values'))
    if probs:
        sig = 'C10:tuple-aliasing-by-concatenation' if any('get the same interaction value' in p for p in probs) else 'C10:' + probs[0].split()[0]
        return {'reproduced': True, 'signature': sig, 'what': '; '.join(probs)}
    return {'reproduced': False, 'what': 'interaction columns faithful'}
