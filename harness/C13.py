"""C13 - data-quality statistics are exact and independent of the batch split (symx driving the real functions with real pandas)."""
from __future__ import annotations

import os
import tempfile
import types
from collections import Counter

import z3

from harness import pipeline as PL
from vlib import hutil, loader, symx
from vlib.symx import SInt

ID = 'C13'

MANIFEST = {
    'engine': 'symx',
    'text': 'Bounded symbolic exploration of the real compute_coverage / compute_cardinalities / compute_value_counts / summarize_rare_counts code on real pandas frames: the value of every cell (index into a pool containing the empty string and a missing symbol), the way the rows are cut into consecutive mini-batches, the rare-value threshold and the missing-symbol set are symbolic and decided by the solver; for every feasible combination the per-batch coverage, sketch size, value-repetition histogram and rare-value table are compared with an exact recomputation over the consumed rows, and the one-batch run with every split. The path set is certified complete against the declared domain. Frames are built with the very expression compute_batch_ranking uses (read from the working tree); the value pool includes a whitespace-only level and, in a small job family, absent cells (None); the missing-symbol list may repeat a symbol; with a saturating histogram bound the histogram must equal the row-by-row bounded recount.',
    'note': 'The functions only ever see concrete frames (inputs are concretised by solver decisions, so this is bounded-exhaustive exploration through the real code, with the solver certifying completeness); <=4 rows x 1 column, <=3 rows x 2 columns (quick), <=5/<=4 rows thorough; HyperLogLog only inside its exact range (beyond: C14); 32-bit hash collisions outside; an empty rare-value table (summarize_rare_counts on no rows) is outside the statement.',
    'technique': 'solver-driven bounded exploration of the real Python code (z3 decides every input choice; coverage certificate by decision-tree audit), exact recomputation oracle',
}

POOL1 = ['', 'a', ' ', '{}']      # incl. a whitespace-only value: an ordinary level, not the empty-string symbol
POOL2 = ['', 'a', 'b']
POOL_NONE = [None, 'a', '']      # an absent cell (what the VW parser reports for a namespace missing from a line) next to a value and an empty string
BOUNDS = {'quick': [(4, 1), (3, 2)], 'thorough': [(5, 1), (4, 2)]}
MISS = [',{}', 'a', 'a,a', ',{},']      # the symbol SET is given as a comma-separated list: a symbol may be named more than once

INFO = {
    'engine': 'symx + z3 (inputs concretised by decisions) + real pandas',
    'explanation': 'cells, cut points, threshold and missing-symbol set are z3 integers; every decision is recorded, the decision tree is audited.',
    'bounds': {t: [f'{r} rows x {c} column(s), cells from {POOL1 if c == 1 else POOL2}, 1..3 consecutive batches, threshold 0..2, missing symbols in {MISS}' for r, c in v] for t, v in BOUNDS.items()},
    'outside': ['sketch beyond warm-up (C14)', '32-bit hash collisions', 'empty rare-value table', 'memory-consumption statistics'],
    'assumptions': ['module globals are reset between runs by the harness (fresh process state per run)'],
    'job_timeout': {'quick': 300, 'thorough': 2400},
}


def real():
    loader.use_repo_on_syspath()
    import outrank.core_ranking as cr
    import outrank.core_utils as cu
    return cr, cu


class _PB:
    def set_description(self, *a, **k):
        pass


def compositions(n, maxparts=3):
    out = []

    def rec(rest, acc):
        if rest == 0:
            out.append(list(acc))
            return
        if len(acc) == maxparts:
            return
        for k in range(1, rest + 1):
            rec(rest - k, acc + [k])
    rec(n, [])
    return out


def run_batches(cr, cu, rows, cols, cuts, thr, miss, with_summary=False, hist_bound=30000):
    """drive the real functions over consecutive batches; returns the observable statistics"""
    import pandas as pd
    PL.fresh_state()
    cr.GLOBAL_CARDINALITY_STORAGE.clear()
    cr.GLOBAL_COUNTS_STORAGE.clear()
    cr.GLOBAL_RARE_VALUE_STORAGE.clear()
    cr.IGNORED_VALUES.clear()
    args = types.SimpleNamespace(missing_value_symbols=miss, rare_value_count_upper_bound=thr, task='identify_rare_values')
    covs = {c: [] for c in cols}
    pos = 0
    mk = PL.frame_builder()      # the frame of a mini-batch as compute_batch_ranking builds it from the parsed rows
    for k in cuts:
        df = mk([list(r) for r in rows[pos:pos + k]], list(cols))
        pos += k
        cov = cr.compute_coverage(df, args)
        for c in cols:
            covs[c].append(float(cov[c]))
        cr.compute_cardinalities(df, _PB(), hist_bound)
        cr.compute_value_counts(df, args)
    res = {
        'cov': covs,
        'card': {c: len(cr.GLOBAL_CARDINALITY_STORAGE[c]) for c in cols},
        'hist': {c: dict(cr.GLOBAL_COUNTS_STORAGE[c].default_counter) for c in cols},
        'rare': {f'{k[0]}|{k[1]}': v for k, v in dict(cr.GLOBAL_RARE_VALUE_STORAGE).items()},
    }
    if with_summary and cr.GLOBAL_RARE_VALUE_STORAGE:
        d = tempfile.mkdtemp(prefix='c13-', dir='/var/tmp')
        try:
            args.output_folder = d
            try:
                cu.summarize_rare_counts(dict(cr.GLOBAL_RARE_VALUE_STORAGE), args, cr.GLOBAL_CARDINALITY_STORAGE, types.SimpleNamespace(column_types=set()))
            except ZeroDivisionError:
                # the feature-sparsity summary written AFTER rare_values.tsv divides by the cardinality (0 for an all-empty column);
                # that table is not part of the statement, the rare-value table has been written by then
                res['note'] = 'feature_sparsity_summary raised ZeroDivisionError after rare_values.tsv was written'
            t = pd.read_csv(os.path.join(d, 'rare_values.tsv'), sep='\t', keep_default_na=False, dtype=str)
            res['tsv'] = sorted([f'{r.Namespace}|{r.value}', int(r.Count)] for r in t.itertuples())
        finally:
            import shutil
            shutil.rmtree(d, ignore_errors=True)
    return res


def oracle(rows, cols, cuts, thr, miss):
    missing = set(miss.split(','))
    exp = {'cov': {c: [] for c in cols}, 'card': {}, 'hist': {}, 'rare': {}}
    pos = 0
    for k in cuts:
        part = rows[pos:pos + k]
        pos += k
        for j, c in enumerate(cols):
            nm = sum(1 for r in part if r[j] in missing)
            exp['cov'][c].append(100.0 * (1 - nm / len(part)))
    for j, c in enumerate(cols):
        vals = [r[j] for r in rows]
        exp['card'][c] = len({v for v in vals if v != '' and v is not None})      # an absent cell is not a value
        exp['hist'][c] = dict(Counter(vals))
        for v, n in Counter(vals).items():
            if n <= thr:
                exp['rare'][f'{c}|{v}'] = n
    return exp


def bounded_hist(vals, bound):
    """the bounded exact counter fed row by row (C15): counts until `bound` distinct values are tracked, then stays as it is - a
    function of the row sequence alone, whatever the split into mini-batches"""
    t = Counter()
    for v in vals:
        if len(t) < bound:
            t[v] += 1
    return dict(t)


def compare(got, exp, hist_exact=True, rows=None, cols=None, hist_bound=None):
    probs = []
    if not hist_exact and rows is not None:
        for j, c in enumerate(cols):
            e = bounded_hist([r[j] for r in rows], hist_bound)
            if got['hist'][c] != e:
                probs.append(f'value counts of {c} under the bound {hist_bound}: {got["hist"][c]} vs row-by-row recomputation {e} (must not depend on the split)')
    for c in exp['card']:
        if any(abs(a - b) > 1e-9 for a, b in zip(got['cov'][c], exp['cov'][c])) or len(got['cov'][c]) != len(exp['cov'][c]):
            probs.append(f'coverage of {c}: {got["cov"][c]} vs exact {exp["cov"][c]}')
        if got['card'][c] != exp['card'][c]:
            probs.append(f'cardinality of {c}: {got["card"][c]} vs exact {exp["card"][c]}')
        if hist_exact and got['hist'][c] != exp['hist'][c]:
            probs.append(f'value counts of {c}: {got["hist"][c]} vs exact {exp["hist"][c]}')
    if got['rare'] != exp['rare']:
        probs.append(f'rare-value report {got["rare"]} vs exact {exp["rare"]}')
    if 'tsv' in got and got['tsv'] != sorted([k, v] for k, v in exp['rare'].items()):
        probs.append(f'rare_values.tsv {got["tsv"]} vs exact {sorted(exp["rare"].items())}')
    return probs


def jobs(tier):
    import pandas  # noqa
    real()
    out = []
    out.append({'cond': 'stats', 'rows': 3, 'cols': 1, 'none': True, 'pins': {'miss': 0}, 'weight': 30, 'label': f'3x1 with absent cells, values from {POOL_NONE}'})
    for r, c in BOUNDS[tier]:
        pool = POOL1 if c == 1 else POOL2
        for pins in hutil.product_pins([('c0', range(len(pool))), ('c1', range(len(pool)))]):
            for mi in (range(len(MISS)) if c == 1 else (0,)):
                out.append({'cond': 'stats', 'rows': r, 'cols': c, 'pins': dict(pins, miss=mi), 'weight': len(pool) ** (r * c), 'label': f'{r}x{c},{pins},miss={mi}'})
    return out


def run_job(job):
    R, C = job['rows'], job['cols']
    pool = POOL_NONE if job.get('none') else (POOL1 if C == 1 else POOL2)
    cols = ['fa', 'fb'][:C]
    comps = compositions(R)
    cr, cu = real()
    loader.record_functions('outrank/core_ranking.py', ['compute_coverage', 'compute_cardinalities', 'compute_value_counts'])
    loader.record_functions('outrank/core_utils.py', ['summarize_rare_counts', 'internal_hash'])
    loader.record_functions('outrank/algorithms/sketches/counting_counters_ordinary.py', ['PrimitiveConstrainedCounter.add'])
    st = {}

    def setup(ctx):
        st['cells'] = [z3.Int(f'c{i}') for i in range(R * C)]
        for v in st['cells']:
            ctx.assume(v >= 0, v < len(pool))
        st['comp'] = z3.Int('comp')
        ctx.assume(st['comp'] >= 0, st['comp'] < len(comps))
        st['thr'] = z3.Int('thr')
        ctx.assume(st['thr'] >= 0, st['thr'] <= 2)
        st['hb'] = z3.Int('hb')     # bound of the value-repetition counter: default 30000, or a small one that saturates
        ctx.assume(st['hb'] >= 0, st['hb'] <= 1)
        st['miss'] = z3.Int('miss')
        ctx.assume(st['miss'] >= 0, st['miss'] < len(MISS))
        for k, v in job['pins'].items():
            ctx.assume(z3.Int(k) == v)

    def body(ctx, out):
        vals = [pool[int(SInt(v, 0, len(pool) - 1))] for v in st['cells']]
        rows = [vals[i * C:(i + 1) * C] for i in range(R)]
        cuts = comps[int(SInt(st['comp'], 0, len(comps) - 1))]
        thr = int(SInt(st['thr'], 0, 2))
        miss = MISS[int(SInt(st['miss'], 0, len(MISS) - 1))]
        hb = [30000, 2][int(SInt(st['hb'], 0, 1))]
        w = {'cond': 'stats', 'rows': rows, 'cols': cols, 'cuts': cuts, 'thr': thr, 'miss': miss, 'hist_bound': hb}
        try:
            got = run_batches(cr, cu, rows, cols, cuts, thr, miss, hist_bound=hb)
            # with a saturating histogram bound the histogram is truncated by design (C15) but still a function of the row sequence; every other statistic must stay exact
            probs = compare(got, oracle(rows, cols, cuts, thr, miss), hist_exact=(hb == 30000), rows=rows, cols=cols, hist_bound=hb)
        except Exception as e:  # the real code raised
            probs = [f'{type(e).__name__}: {e}']
        if probs or out.twin:
            out.concrete_fail(w, probs[0] if probs else 'twin')
        else:
            out.concrete_ok()
        out.sample({'rows': rows, 'cuts': cuts, 'thr': thr, 'miss': miss})
    return hutil.run_symx(job, setup, body)


def replay(w):
    cr, cu = real()
    rows, cols, cuts, thr, miss = w['rows'], w['cols'], w['cuts'], w['thr'], w['miss']
    hb = w.get('hist_bound', 30000)
    try:
        got = run_batches(cr, cu, rows, cols, cuts, thr, miss, with_summary=True, hist_bound=hb)
    except Exception as e:
        import traceback
        tb = traceback.extract_tb(e.__traceback__)[-1]
        return {'reproduced': True, 'signature': f'C13:exception:{type(e).__name__}:{tb.name}',
                'what': f'rows {rows} cut {cuts}: {type(e).__name__}: {e} (in {tb.name}, {os.path.basename(tb.filename)}:{tb.lineno})'}
    probs = compare(got, oracle(rows, cols, cuts, thr, miss), hist_exact=(hb == 30000), rows=rows, cols=cols, hist_bound=hb)
    if probs:
        kind = 'rare-report' if any('rare' in p for p in probs) and len(probs) == sum('rare' in p for p in probs) else 'stats'
        if kind == 'stats' and any(v is None for r in rows for v in r) and any('nan' in p for p in probs):
            kind = 'absent-cells-split-dependent'
        if kind == 'rare-report':
            one = run_batches(cr, cu, rows, cols, [len(rows)], thr, miss, hist_bound=hb)
            if not compare(one, oracle(rows, cols, [len(rows)], thr, miss)):
                kind = 'rare-report-split-dependent'
        return {'reproduced': True, 'signature': f'C13:{kind}', 'what': f'rows {rows} ({cols}) cut into {cuts}, threshold {thr}, missing {miss!r}, histogram bound {hb}: ' + '; '.join(probs)}
    return {'reproduced': False, 'what': 'statistics equal the exact recomputation'}
