"""C14 - cardinality sketch: exact while warm, duplicate-blind (symx on a scaled-down instance of the real class)."""
from __future__ import annotations

import math
import types

import z3

from vlib import hutil, loader, symx, xnp
from vlib.symx import SInt, mkbool

ID = 'C14'

MANIFEST = {
    'engine': 'symx',
    'text': 'Bounded symbolic model checking of the real HyperLogLogWCache source on a scaled-down instance (the class keeps p, m, warmup_size and width on the instance; the harness records the real constants and re-scales them to p in {2,3}): the insertion sequence (which item at each step) and the 32-bit hash of every distinct item are symbolic; z3/the path explorer shows after every prefix that len == #distinct while #distinct <= warm-up capacity, that re-adding a seen item never changes len (before, at and after the switch to registers), that len in the exact range is order-independent, and that the registers after the switch are a function of the set inserted. A further condition (feed) drives the real compute_cardinalities with real pandas over solver-chosen columns and batch splits against the real class re-scaled to capacity 4 and requires the exact count after every batch. The hash object is modelled as streaming (several updates hash the concatenation), hash values may collide, and a counterexample that needs a 32-bit collision is replayed with real strings whose xxh32 digests collide.',
    'note': 'Scaled instance: same code, smaller constants (capacity 2 or 4 instead of 2^18); xxhash replaced by an arbitrary function item -> 32-bit value; the clause "within 2% up to 2^21 distinct values" is statistical (a probabilistic statement over the hash, false for adversarial multisets) and is NOT covered.',
    'technique': 'symbolic execution of the real Python source with z3 on a re-scaled instance; hash values as unconstrained 32-bit integers',
}

BOUNDS = {'quick': [(2, 4, 3), (2, 5, 3)], 'thorough': [(2, 5, 4), (2, 6, 3), (2, 6, 4)]}

FEED_ROWS_ = {'quick': 5, 'thorough': 6}
INFO = {
    'engine': 'symx + z3',
    'explanation': 'p re-scaled on the instance; item index per step concretised by solver decisions, hash values stay symbolic (register index/rank are z3 terms, registers If-merged); '
                   'len() forks on which registers are empty.',
    'bounds': {t: [f'p={p} (capacity {(1 << p) // 2}), {s} insertions over {k} items' for p, s, k in v] + ['exact range: 4 insertions over 7 values that differ in type (str/bytes/int) or in a lone surrogate, real class at capacity 4'] + [f'pipeline feed: {FEED_ROWS_[t]} rows over 5 values (one empty), 1..3 consecutive mini-batches, real class re-scaled to capacity 4, real xxhash'] for t, v in BOUNDS.items()},
    'outside': ['"within 2% up to 2^21 distinct values" (statistical)', 'the real constants p=19, capacity 2^18 (recorded and asserted, then re-scaled)', '32-bit hash collisions between distinct items are allowed (hash values unconstrained)'],
    'assumptions': ['xxhash.xxh32(seed).update(bytes).intdigest() is a function of the bytes', 'numpy zeros/where/log/divide/ceil on the register array follow numpy semantics'],
    'job_timeout': {'quick': 240, 'thorough': 1500},
}

HASH = {}


_SEQ_IDS = {}
_HSEQ = z3.Function('xxh32_of_sequence', z3.IntSort(), z3.IntSort())


class _XX:
    """streaming hash object: the digest is a function of everything fed so far (one item: that item's symbolic hash value;
    several updates: an uninterpreted function of the sequence), like the real xxh32 object"""

    def __init__(self, seed=0):
        self.seq = []

    def update(self, b):
        self.seq.append(bytes(b))

    def reset(self):
        self.seq = []

    def intdigest(self):
        if len(self.seq) == 1:
            return HASH[self.seq[0]]
        key = tuple(self.seq)
        sid = _SEQ_IDS.setdefault(key, len(_SEQ_IDS))
        e = _HSEQ(sid)
        symx.CTX.solver.add(e >= 0, e < 2 ** 32)
        return SInt(e, 0, 2 ** 32 - 1)


class Regs(xnp.Arr):
    pass


def _np():
    m = types.ModuleType('numpy')
    m.inf = math.inf
    m.zeros = lambda n: xnp.Arr([0] * int(n), 'float')
    m.where = xnp.where
    m.count_nonzero = xnp.count_nonzero
    m.divide = lambda a, b: (a / b) if b else math.inf
    m.log = lambda x: math.log(x) if x != math.inf else math.inf
    m.ceil = lambda x: x if x in (math.inf, -math.inf) else float(math.ceil(x))
    return m


class ValSet:
    """set() inside the sketch: list-backed, membership by == (comparisons of symbolic hash values fork, so collisions are explored)"""

    def __init__(self, it=()):
        self.items = []
        for x in it:
            self.add(x)

    def __contains__(self, x):
        for y in self.items:
            if x == y:
                return True
        return False

    def add(self, x):
        if x not in self:
            self.items.append(x)

    def __len__(self):
        return len(self.items)

    def __iter__(self):
        return iter(list(self.items))


def smax(a, b):
    c = a > b
    if c is True:
        return a
    if c is False:
        return b
    return symx.ite(c, a, b)


def load_hll():
    xx = types.ModuleType('xxhash')
    xx.xxh32 = _XX
    xx.xxh32_intdigest = lambda data, seed=0: HASH[bytes(data)]
    xx.xxh64_intdigest = xx.xxh32_intdigest
    ns = loader.load('outrank/algorithms/sketches/counting_ultiloglog.py', shims={'numpy': _np(), 'xxhash': xx}, extra={'max': smax, 'set': ValSet},
                     record=['HyperLogLogWCache', 'HyperLogLogWCache._hasher_update', 'HyperLogLogWCache.add', 'HyperLogLogWCache.__len__'])
    return ns['HyperLogLogWCache']


def jobs(tier):
    out = []
    import pandas  # noqa
    for v0 in range(len(KEY_POOL)):
        out.append({'cond': 'keys', 'pins': {'v0': v0}, 'weight': 5, 'label': f'exact range, values that differ in type or in one odd character, first {KEY_POOL[v0]!r}'})
    for c0 in range(len(FEED_POOL)):
        for c1 in range(len(FEED_POOL)):
            out.append({'cond': 'feed', 'tier': tier, 'pins': {'c0': c0, 'c1': c1}, 'weight': 30, 'label': f'pipeline feed, first cells {FEED_POOL[c0]!r},{FEED_POOL[c1]!r}'})
    for p, s, k in BOUNDS[tier]:
        for pins in hutil.product_pins([(f's{i}', range(k)) for i in range(2 if s <= 5 else 3)]):
            out.append({'cond': 'prefix-len', 'p': p, 's': s, 'k': k, 'pins': pins, 'weight': k ** (s - 1), 'label': f'p={p},s={s},k={k},{pins}'})
    return out


def scaled(HLL, p):
    o = HLL()
    real = (o.p, o.m, o.warmup_size, o.width)
    ratio = o.warmup_size / o.m
    o.p = p
    o.m = 1 << p
    o.warmup_size = int(o.m * ratio)
    o.width = 64 - p
    return o, real


# ---- how the pipeline feeds the sketch: real compute_cardinalities over consecutive mini-batches, real class re-scaled to capacity 4 ----
FEED_POOL = ['', 'u', 'v', 'w', 'x']
FEED_ROWS = {'quick': 5, 'thorough': 6}


def feed_compositions(n, maxparts=3):
    out = []

    def rec(rest, acc):
        if rest == 0:
            out.append(list(acc))
            return
        if len(acc) == maxparts:
            return
        for k in range(1, rest + 1):
            rec(rest - k, acc + [k])
    rec(n, [])
    return out


def feed_problem(vals, cuts, P=3):
    """None, or what is wrong: after every mini-batch the column's sketch must report the exact number of distinct non-empty values
    seen so far while that number is within the (re-scaled) warm-up capacity"""
    import pandas as pd
    from harness import pipeline as PL
    cr, cu, tr, ie = PL.real_modules()
    from outrank.algorithms.sketches.counting_ultiloglog import HyperLogLogWCache as HLL
    PL.fresh_state()
    for g in (cr.GLOBAL_CARDINALITY_STORAGE, cr.GLOBAL_COUNTS_STORAGE):
        g.clear()
    made = []

    def factory(*a, **k):
        # the sketch is constructed the way compute_cardinalities constructs it (its own arguments), then re-scaled: p -> P with the
        # warm-up share of the registers it was built with; the capacity the STATEMENT gives it is 2^18 out of its m registers
        o = HLL(*a, **k)
        share, m0 = o.warmup_size / o.m, o.m
        o.p, o.m = P, 1 << P
        o.warmup_size = int(o.m * share)
        o.width = 64 - P
        made.append(int((1 << P) * 2 ** 18 / m0))
        return o
    saved_cls = cr.HyperLogLog
    cr.HyperLogLog = factory
    pb = types.SimpleNamespace(set_description=lambda *a, **k: None)
    pos, seen = 0, set()
    try:
        for k in cuts:
            part = vals[pos:pos + k]
            pos += k
            cr.compute_cardinalities(pd.DataFrame({'fa': part}), pb, 30000)
            seen |= {v for v in part if v != ''}
            cap = made[0]
            got = len(cr.GLOBAL_CARDINALITY_STORAGE['fa'])
            if len(seen) <= cap and got != len(seen):
                return f'after the batches {cuts[:cuts.index(k) + 1] if cuts.count(k) == 1 else "up to row " + str(pos)} the sketch (capacity {cap}) reports {got} distinct values, the column has {len(seen)}'
    finally:
        cr.HyperLogLog = saved_cls
        for g in (cr.GLOBAL_CARDINALITY_STORAGE, cr.GLOBAL_COUNTS_STORAGE):
            g.clear()
    return None


KEY_POOL = ['caf\udce9', 'caf\udce8', 'a', b'a', 'A', 1, '1']      # distinct values: strings that differ in a lone surrogate, text vs its bytes, int vs its text
KEY_STEPS = 4


def keys_problem(vals, P=3):
    """real class re-scaled to capacity 4: while the number of distinct values stays within it, len() is exactly that number"""
    loader.use_repo_on_syspath()
    from outrank.algorithms.sketches.counting_ultiloglog import HyperLogLogWCache as HLL
    o, _ = scaled(HLL, P)
    seen = []
    for k, v in enumerate(vals):
        o.add(v)
        if not any(type(v) is type(u) and v == u for u in seen):
            seen.append(v)
        if len(seen) <= o.warmup_size and len(o) != len(seen):
            return f'after adding {vals[:k + 1]!r} the sketch (capacity {o.warmup_size}) reports {len(o)} distinct values, there are {len(seen)}'
    return None


def run_keys(job):
    st = {}

    def setup(ctx):
        st['v'] = [z3.Int(f'v{i}') for i in range(KEY_STEPS)]
        for v in st['v']:
            ctx.assume(v >= 0, v < len(KEY_POOL))
        for k, v in job['pins'].items():
            ctx.assume(z3.Int(k) == v)

    def body(ctx, out):
        idx = [int(SInt(v, 0, len(KEY_POOL) - 1)) for v in st['v']]
        w = {'cond': 'keys', 'idx': idx}
        try:
            p = keys_problem([KEY_POOL[i] for i in idx])
        except Exception as e:
            p = f'{type(e).__name__}: {e}'
        if p or out.twin:
            out.concrete_fail(w, p or 'twin')
        else:
            out.concrete_ok()
        out.sample({'values': [repr(KEY_POOL[i]) for i in idx]})
    return hutil.run_symx(job, setup, body)


def run_feed(job):
    R = FEED_ROWS[job.get('tier', 'quick')]
    comps = feed_compositions(R)
    loader.record_functions('outrank/core_ranking.py', ['compute_cardinalities'])
    loader.record_functions('outrank/algorithms/sketches/counting_ultiloglog.py', ['HyperLogLogWCache.add', 'HyperLogLogWCache.__len__', 'HyperLogLogWCache._hasher_update'])
    st = {}

    def setup(ctx):
        st['c'] = [z3.Int(f'c{i}') for i in range(R)]
        for v in st['c']:
            ctx.assume(v >= 0, v < len(FEED_POOL))
        st['comp'] = z3.Int('comp')
        ctx.assume(st['comp'] >= 0, st['comp'] < len(comps))
        for k, v in job['pins'].items():
            ctx.assume(z3.Int(k) == v)

    def body(ctx, out):
        vals = [FEED_POOL[int(SInt(v, 0, len(FEED_POOL) - 1))] for v in st['c']]
        cuts = comps[int(SInt(st['comp'], 0, len(comps) - 1))]
        w = {'cond': 'feed', 'vals': vals, 'cuts': cuts}
        try:
            p = feed_problem(vals, cuts)
        except Exception as e:
            p = f'{type(e).__name__}: {e}'
        if p or out.twin:
            out.concrete_fail(w, p or 'twin')
        else:
            out.concrete_ok()
        out.sample(w)
    return hutil.run_symx(job, setup, body)


def run_job(job):
    if job['cond'] == 'feed':
        return run_feed(job)
    if job['cond'] == 'keys':
        return run_keys(job)
    P, S, NI = job['p'], job['s'], job['k']
    HLL = load_hll()
    ITEMS = [f'it{i}' for i in range(NI)]
    st = {}

    def setup(ctx):
        st['h'] = [z3.Int(f'h{i}') for i in range(NI)]
        for h in st['h']:
            ctx.assume(h >= 0, h < 2 ** 32)
        st['seq'] = [z3.Int(f's{i}') for i in range(S)]
        for s in st['seq']:
            ctx.assume(s >= 0, s < NI)
        for k, v in job['pins'].items():
            ctx.assume(z3.Int(k) == v)

    def body(ctx, out):
        for it, h in zip(ITEMS, st['h']):
            HASH[it.encode()] = SInt(h, 0, 2 ** 32 - 1)
        o, real = scaled(HLL, P)
        if real != (19, 1 << 19, 1 << 18, 45):
            out.inconclusive.append(f'the real constants changed: (p, m, warmup_size, width) = {real}')
        cap = o.warmup_size
        seen = []
        seq = []
        prev = 0

        def wit_for(kind, k):
            def wit(m):
                return {'cond': 'prefix-len', 'kind': kind, 'p': P, 'seq': seq[:k + 1], 'hash': [m.eval(h, model_completion=True).as_long() for h in st['h']]}
            return wit
        for k in range(S):
            idx = int(SInt(st['seq'][k], 0, NI - 1))
            seq.append(idx)
            dup = ITEMS[idx] in seen
            regs_before = list(o.M.data) if o.hll_flag else None
            o.add(ITEMS[idx])
            if not dup:
                seen.append(ITEMS[idx])
            cur = len(o)
            if len(seen) <= cap:
                out.never(ctx, z3.BoolVal(cur != len(seen)), wit_for('exact', k), f'len != #distinct in the exact range (capacity {cap})')
            if dup:
                out.never(ctx, z3.BoolVal(cur != prev), wit_for('dup', k), 're-adding a seen value changed len')
                if regs_before is not None and o.hll_flag:
                    diff = z3.Or([symx.zint(a) != symx.zint(b) for a, b in zip(regs_before, o.M.data)])
                    out.never(ctx, diff, wit_for('dup-regs', k), 're-adding a seen value changed a register')
            prev = cur
        # after the switch the registers are a function of the set inserted: compare with a fresh sketch fed the distinct items once, in sorted order
        if o.hll_flag:
            o2, _ = scaled(HLL, P)
            for it in sorted(seen):
                o2.add(it)
            if o2.hll_flag:
                diff = z3.Or([symx.zint(a) != symx.zint(b) for a, b in zip(o.M.data, o2.M.data)])
                out.never(ctx, diff, wit_for('set-function', S - 1), 'registers depend on order/duplication, not only on the set inserted')
            else:
                out.never(ctx, z3.BoolVal(True), wit_for('set-function', S - 1), 'switch to registers depends on order/duplication')
        out.sample({'p': P, 'seq': seq, 'len_after': prev if isinstance(prev, int) else str(prev)})
    return hutil.run_symx(job, setup, body)


def _real_collisions(seed, k):
    import xxhash
    seen, out, i = {}, [], 0
    while len(out) < k and i < 3_000_000:
        s = f'k{i}'
        d = xxhash.xxh32(s.encode(), seed=seed).intdigest()
        if d in seen:
            out.append((seen[d], s))
        else:
            seen[d] = s
        i += 1
    return out


def replay(w):
    if w.get('cond') == 'keys':
        try:
            p = keys_problem([KEY_POOL[i] for i in w['idx']])
        except Exception as e:
            p = f'{type(e).__name__}: {e}'
        if p:
            return {'reproduced': True, 'signature': 'C14:exact-keys', 'what': p}
        return {'reproduced': False, 'what': 'exact for these values'}
    if w.get('cond') == 'feed':
        try:
            p = feed_problem(w['vals'], w['cuts'])
        except Exception as e:
            p = f'{type(e).__name__}: {e}'
        if p:
            return {'reproduced': True, 'signature': 'C14:pipeline-feed', 'what': f'compute_cardinalities over column {w["vals"]} cut into {w["cuts"]}: {p}'}
        return {'reproduced': False, 'what': 'exact after every batch'}
    return _replay_seq(w)


def _replay_seq(w):
    """real class, real xxhash: the property is about insertion sequences, so the witness sequence is replayed on a re-scaled REAL instance
    with distinct real strings (hash values are whatever xxhash gives; clauses that depend on particular hash values are replayed by search over strings)."""
    loader.use_repo_on_syspath()
    from outrank.algorithms.sketches.counting_ultiloglog import HyperLogLogWCache as HLL
    P = w['p']

    def mk():
        o = HLL()
        ratio = o.warmup_size / o.m
        o.p, o.m = P, 1 << P
        o.warmup_size = int(o.m * ratio)
        o.width = 64 - P
        return o
    import itertools
    import random
    rnd = random.Random(1)
    # items to which the solver gave EQUAL hash values are replayed with real strings whose xxh32 digests (seed = p) really collide
    # (birthday search), so that a defect which only shows under a 32-bit collision is reproduced on the real build
    hv = w.get('hash') or []
    classes = {}
    for i, h in enumerate(hv):
        classes.setdefault(h, []).append(i)
    colliding = [c for c in classes.values() if len(c) >= 2]
    pairs = _real_collisions(P, len(colliding)) if colliding else []
    for attempt in range(200):
        names = [f'v{attempt}_{i}_{rnd.randrange(10 ** 6)}' for i in range(max(max(w['seq']) + 1, len(hv)))]
        for cls, pr in zip(colliding, pairs):
            names[cls[0]], names[cls[1]] = pr
        o = mk()
        seen = []
        prev = 0
        for k, idx in enumerate(w['seq']):
            dup = names[idx] in seen
            o.add(names[idx])
            if not dup:
                seen.append(names[idx])
            cur = len(o)
            if len(seen) <= o.warmup_size and cur != len(seen):
                return {'reproduced': True, 'signature': 'C14:exact-range', 'what': f'scaled instance p={P} (capacity {o.warmup_size}): sequence {w["seq"][:k + 1]} has {len(seen)} distinct values but len = {cur}'}
            if dup and cur != prev:
                sig = 'C14:dup-at-switch' if len(seen) <= o.warmup_size + 1 else 'C14:dup-after-switch'
                return {'reproduced': True, 'signature': sig, 'what': f'scaled instance p={P} (capacity {o.warmup_size}): re-adding a seen value at step {k + 1} of {w["seq"][:k + 1]} changed len {prev} -> {cur}'}
            prev = cur
        if w.get('kind') == 'set-function' and o.hll_flag:
            o2 = mk()
            for it in sorted(seen):
                o2.add(it)
            if not o2.hll_flag or list(o2.M) != list(o.M):
                return {'reproduced': True, 'signature': 'C14:set-function', 'what': f'scaled instance p={P}: registers after {w["seq"]} differ from those after inserting the same set once'}
    return {'reproduced': False, 'what': 'not reproduced with 200 random string assignments'}
