"""C14 - cardinality sketch: exact while warm, duplicate-blind (symx on a scaled-down instance of the real class)."""
from __future__ import annotations

import math
import types

import z3

from vlib import hutil, loader, symx, xnp
from vlib.symx import SInt, mkbool

ID = 'C14'

MANIFEST = {
    'engine': 'symx',
    'text': 'Bounded symbolic model checking of the real HyperLogLogWCache source on a scaled-down instance (the class keeps p, m, warmup_size and width on the instance; the harness records the real constants and re-scales them to p in {2,3}): the insertion sequence (which item at each step) and the 32-bit hash of every distinct item are symbolic; z3/the path explorer shows after every prefix that len == #distinct while #distinct <= warm-up capacity, that re-adding a seen item never changes len (before, at and after the switch to registers), that len in the exact range is order-independent, and that the registers after the switch are a function of the set inserted. The hash object is modelled as streaming (several updates hash the concatenation), hash values may collide, and a counterexample that needs a 32-bit collision is replayed with real strings whose xxh32 digests collide.',
    'note': 'Scaled instance: same code, smaller constants (capacity 2 or 4 instead of 2^18); xxhash replaced by an arbitrary function item -> 32-bit value; the clause "within 2% up to 2^21 distinct values" is statistical (a probabilistic statement over the hash, false for adversarial multisets) and is NOT covered.',
    'technique': 'symbolic execution of the real Python source with z3 on a re-scaled instance; hash values as unconstrained 32-bit integers',
}

BOUNDS = {'quick': [(2, 4, 3), (2, 5, 3)], 'thorough': [(2, 5, 4), (2, 6, 3), (2, 6, 4)]}

INFO = {
    'engine': 'symx + z3',
    'explanation': 'p re-scaled on the instance; item index per step concretised by solver decisions, hash values stay symbolic (register index/rank are z3 terms, registers If-merged); '
                   'len() forks on which registers are empty.',
    'bounds': {t: [f'p={p} (capacity {(1 << p) // 2}), {s} insertions over {k} items' for p, s, k in v] for t, v in BOUNDS.items()},
    'outside': ['"within 2% up to 2^21 distinct values" (statistical)', 'the real constants p=19, capacity 2^18 (recorded and asserted, then re-scaled)', '32-bit hash collisions between distinct items are allowed (hash values unconstrained)'],
    'assumptions': ['xxhash.xxh32(seed).update(bytes).intdigest() is a function of the bytes', 'numpy zeros/where/log/divide/ceil on the register array follow numpy semantics'],
    'job_timeout': {'quick': 240, 'thorough': 1500},
}

HASH = {}


_SEQ_IDS = {}
_HSEQ = z3.Function('xxh32_of_sequence', z3.IntSort(), z3.IntSort())


class _XX:
    """streaming hash object: the digest is a function of everything fed so far (one item: that item's symbolic hash value;
    several updates: an uninterpreted function of the sequence), like the real xxh32 object"""

    def __init__(self, seed=0):
        self.seq = []

    def update(self, b):
        self.seq.append(bytes(b))

    def reset(self):
        self.seq = []

    def intdigest(self):
        if len(self.seq) == 1:
            return HASH[self.seq[0]]
        key = tuple(self.seq)
        sid = _SEQ_IDS.setdefault(key, len(_SEQ_IDS))
        e = _HSEQ(sid)
        symx.CTX.solver.add(e >= 0, e < 2 ** 32)
        return SInt(e, 0, 2 ** 32 - 1)


class Regs(xnp.Arr):
    pass


def _np():
    m = types.ModuleType('numpy')
    m.inf = math.inf
    m.zeros = lambda n: xnp.Arr([0] * int(n), 'float')
    m.where = xnp.where
    m.divide = lambda a, b: (a / b) if b else math.inf
    m.log = lambda x: math.log(x) if x != math.inf else math.inf
    m.ceil = lambda x: x if x in (math.inf, -math.inf) else float(math.ceil(x))
    return m


class ValSet:
    """set() inside the sketch: list-backed, membership by == (comparisons of symbolic hash values fork, so collisions are explored)"""

    def __init__(self, it=()):
        self.items = []
        for x in it:
            self.add(x)

    def __contains__(self, x):
        for y in self.items:
            if x == y:
                return True
        return False

    def add(self, x):
        if x not in self:
            self.items.append(x)

    def __len__(self):
        return len(self.items)

    def __iter__(self):
        return iter(list(self.items))


def smax(a, b):
    c = a > b
    if c is True:
        return a
    if c is False:
        return b
    return symx.ite(c, a, b)


def load_hll():
    xx = types.ModuleType('xxhash')
    xx.xxh32 = _XX
    xx.xxh32_intdigest = lambda data, seed=0: HASH[bytes(data)]
    xx.xxh64_intdigest = xx.xxh32_intdigest
    ns = loader.load('outrank/algorithms/sketches/counting_ultiloglog.py', shims={'numpy': _np(), 'xxhash': xx}, extra={'max': smax, 'set': ValSet},
                     record=['HyperLogLogWCache', 'HyperLogLogWCache._hasher_update', 'HyperLogLogWCache.add', 'HyperLogLogWCache.__len__'])
    return ns['HyperLogLogWCache']


def jobs(tier):
    out = []
    for p, s, k in BOUNDS[tier]:
        for pins in hutil.product_pins([(f's{i}', range(k)) for i in range(2 if s <= 5 else 3)]):
            out.append({'cond': 'prefix-len', 'p': p, 's': s, 'k': k, 'pins': pins, 'weight': k ** (s - 1), 'label': f'p={p},s={s},k={k},{pins}'})
    return out


def scaled(HLL, p):
    o = HLL()
    real = (o.p, o.m, o.warmup_size, o.width)
    ratio = o.warmup_size / o.m
    o.p = p
    o.m = 1 << p
    o.warmup_size = int(o.m * ratio)
    o.width = 64 - p
    return o, real


def run_job(job):
    P, S, NI = job['p'], job['s'], job['k']
    HLL = load_hll()
    ITEMS = [f'it{i}' for i in range(NI)]
    st = {}

    def setup(ctx):
        st['h'] = [z3.Int(f'h{i}') for i in range(NI)]
        for h in st['h']:
            ctx.assume(h >= 0, h < 2 ** 32)
        st['seq'] = [z3.Int(f's{i}') for i in range(S)]
        for s in st['seq']:
            ctx.assume(s >= 0, s < NI)
        for k, v in job['pins'].items():
            ctx.assume(z3.Int(k) == v)

    def body(ctx, out):
        for it, h in zip(ITEMS, st['h']):
            HASH[it.encode()] = SInt(h, 0, 2 ** 32 - 1)
        o, real = scaled(HLL, P)
        if real != (19, 1 << 19, 1 << 18, 45):
            out.inconclusive.append(f'the real constants changed: (p, m, warmup_size, width) = {real}')
        cap = o.warmup_size
        seen = []
        seq = []
        prev = 0

        def wit_for(kind, k):
            def wit(m):
                return {'cond': 'prefix-len', 'kind': kind, 'p': P, 'seq': seq[:k + 1], 'hash': [m.eval(h, model_completion=True).as_long() for h in st['h']]}
            return wit
        for k in range(S):
            idx = int(SInt(st['seq'][k], 0, NI - 1))
            seq.append(idx)
            dup = ITEMS[idx] in seen
            regs_before = list(o.M.data) if o.hll_flag else None
            o.add(ITEMS[idx])
            if not dup:
                seen.append(ITEMS[idx])
            cur = len(o)
            if len(seen) <= cap:
                out.never(ctx, z3.BoolVal(cur != len(seen)), wit_for('exact', k), f'len != #distinct in the exact range (capacity {cap})')
            if dup:
                out.never(ctx, z3.BoolVal(cur != prev), wit_for('dup', k), 're-adding a seen value changed len')
                if regs_before is not None and o.hll_flag:
                    diff = z3.Or([symx.zint(a) != symx.zint(b) for a, b in zip(regs_before, o.M.data)])
                    out.never(ctx, diff, wit_for('dup-regs', k), 're-adding a seen value changed a register')
            prev = cur
        # after the switch the registers are a function of the set inserted: compare with a fresh sketch fed the distinct items once, in sorted order
        if o.hll_flag:
            o2, _ = scaled(HLL, P)
            for it in sorted(seen):
                o2.add(it)
            if o2.hll_flag:
                diff = z3.Or([symx.zint(a) != symx.zint(b) for a, b in zip(o.M.data, o2.M.data)])
                out.never(ctx, diff, wit_for('set-function', S - 1), 'registers depend on order/duplication, not only on the set inserted')
            else:
                out.never(ctx, z3.BoolVal(True), wit_for('set-function', S - 1), 'switch to registers depends on order/duplication')
        out.sample({'p': P, 'seq': seq, 'len_after': prev if isinstance(prev, int) else str(prev)})
    return hutil.run_symx(job, setup, body)


def _real_collisions(seed, k):
    import xxhash
    seen, out, i = {}, [], 0
    while len(out) < k and i < 3_000_000:
        s = f'k{i}'
        d = xxhash.xxh32(s.encode(), seed=seed).intdigest()
        if d in seen:
            out.append((seen[d], s))
        else:
            seen[d] = s
        i += 1
    return out


def replay(w):
    """real class, real xxhash: the property is about insertion sequences, so the witness sequence is replayed on a re-scaled REAL instance
    with distinct real strings (hash values are whatever xxhash gives; clauses that depend on particular hash values are replayed by search over strings)."""
    loader.use_repo_on_syspath()
    from outrank.algorithms.sketches.counting_ultiloglog import HyperLogLogWCache as HLL
    P = w['p']

    def mk():
        o = HLL()
        ratio = o.warmup_size / o.m
        o.p, o.m = P, 1 << P
        o.warmup_size = int(o.m * ratio)
        o.width = 64 - P
        return o
    import itertools
    import random
    rnd = random.Random(1)
    # items to which the solver gave EQUAL hash values are replayed with real strings whose xxh32 digests (seed = p) really collide
    # (birthday search), so that a defect which only shows under a 32-bit collision is reproduced on the real build
    hv = w.get('hash') or []
    classes = {}
    for i, h in enumerate(hv):
        classes.setdefault(h, []).append(i)
    colliding = [c for c in classes.values() if len(c) >= 2]
    pairs = _real_collisions(P, len(colliding)) if colliding else []
    for attempt in range(200):
        names = [f'v{attempt}_{i}_{rnd.randrange(10 ** 6)}' for i in range(max(max(w['seq']) + 1, len(hv)))]
        for cls, pr in zip(colliding, pairs):
            names[cls[0]], names[cls[1]] = pr
        o = mk()
        seen = []
        prev = 0
        for k, idx in enumerate(w['seq']):
            dup = names[idx] in seen
            o.add(names[idx])
            if not dup:
                seen.append(names[idx])
            cur = len(o)
            if len(seen) <= o.warmup_size and cur != len(seen):
                return {'reproduced': True, 'signature': 'C14:exact-range', 'what': f'scaled instance p={P} (capacity {o.warmup_size}): sequence {w["seq"][:k + 1]} has {len(seen)} distinct values but len = {cur}'}
            if dup and cur != prev:
                sig = 'C14:dup-at-switch' if len(seen) <= o.warmup_size + 1 else 'C14:dup-after-switch'
                return {'reproduced': True, 'signature': sig, 'what': f'scaled instance p={P} (capacity {o.warmup_size}): re-adding a seen value at step {k + 1} of {w["seq"][:k + 1]} changed len {prev} -> {cur}'}
            prev = cur
        if w.get('kind') == 'set-function' and o.hll_flag:
            o2 = mk()
            for it in sorted(seen):
                o2.add(it)
            if not o2.hll_flag or list(o2.M) != list(o.M):
                return {'reproduced': True, 'signature': 'C14:set-function', 'what': f'scaled instance p={P}: registers after {w["seq"]} differ from those after inserting the same set once'}
    return {'reproduced': False, 'what': 'not reproduced with 200 random string assignments'}
