"""C07 - capped combination sampling is fair over any sequence of batches (symx, one inductive step)."""
from __future__ import annotations

import types
from collections import Counter
from typing import Any

import z3

from vlib import hutil, loader, symx, xnp
from vlib.symx import SInt

ID = 'C07'

MANIFEST = {
    'engine': 'symx',
    'text': 'Inductive-step bounded model checking of the real prior_combinations_sample source: the global counter starts in an ARBITRARY state satisfying the invariant max-min<=1 over a duplicate-free candidate list (symbolic counts; or empty = base case), the cap is symbolic (so it may change between batches), one call runs, and z3 shows on every path: len(out)=min(cap,m), distinct members of the list, every selected pre-count <= every unselected one, counter +1 exactly on the selected, invariant restored. One step from every invariant state covers batch sequences of any length. The process-global counter may in addition hold a foreign key of another candidate list; an export-file condition runs the real ranking task (4 features, interaction order 1..2, cap 2..7, 1..4 mini-batches (thorough: 1..14, long enough for both orders of a pair of interaction columns to become candidates), optionally a counter that already holds both orders of such a pair - all solver-chosen) with a recording wrapper around the sampler and compares combination_estimation_counts.json key by key (ordered tuples) with the selections actually made; a large-cap condition explores caps around the module constant MAX_FEATURES_3MR (read from the source) with a longer candidate list.',
    'note': 'Candidate lists of m<=5 (quick) / m<=8 (thorough) entries; counts in [0,4]; the process-global counter may also hold a foreign key of another candidate list; lists with duplicates are outside (the statement says stable duplicate-free list). The export clause (returned/exported counts = selections) is explored through the real streaming loop incl. the tail batch (condition export; the JSON file itself in C08).',
    'technique': 'symbolic execution of the real Python source with z3 from an arbitrary invariant pre-state (k-induction, k=1)',
}

BOUNDS = {'quick': [1, 2, 3, 4, 5], 'thorough': [1, 2, 3, 4, 5, 6, 7, 8]}
INFO = {
    'engine': 'symx + z3',
    'explanation': 'Pre-state counts and cap symbolic; sorted(key=Counter.get) forks on solver-decided comparisons; post-conditions are z3 queries per path.',
    'bounds': {t: {'step': [f'list of {m} candidates, counts 0..2^40 (pairwise within 1), cap 0..{m + 1}' for m in v]} for t, v in BOUNDS.items()},
    'outside': ['candidate lists with duplicates', 'several lists sharing keys in the one global counter', 'lists longer than the bound'],
    'assumptions': ['the function is extracted from core_ranking.py with its global counter; Counter is the real collections.Counter holding symbolic ints'],
    'job_timeout': {'quick': 200, 'thorough': 1800},
}
CMAX = 2 ** 40      # the pre-state is ANY invariant state: counts after any number of batches, not just the first few


def _module_constants():
    """simple module-level constants of core_ranking.py (read from the source), so that the extracted function can refer to them"""
    import ast
    out = {}
    for n in ast.parse(open(loader.repo_path('outrank/core_ranking.py')).read()).body:
        tg = n.targets[0] if isinstance(n, ast.Assign) else (n.target if isinstance(n, ast.AnnAssign) else None)
        if isinstance(tg, ast.Name) and getattr(n, 'value', None) is not None:
            try:
                out[tg.id] = eval(compile(ast.Expression(n.value), '<const>', 'eval'), {})
            except Exception:
                pass
    return {k: v for k, v in out.items() if isinstance(v, (int, float, str, bool))}


def load_fn():
    ns = loader.load('outrank/core_ranking.py', only=['prior_combinations_sample', 'GLOBAL_PRIOR_COMB_COUNTS'], extra=_module_constants() | {'Counter': Counter, 'Any': Any, 'np': xnp, 'itertools': __import__('itertools'), 'random': __import__('random')})
    return ns


def jobs(tier):
    out = [{'cond': 'export', 'pins': {}, 'weight': 50, 'label': 'export'}, {'cond': 'large-cap', 'pins': {}, 'weight': 60, 'label': 'large-cap'}]
    for nb in range(1, NB_MAX[tier] + 1):
        out.append({'cond': 'export-file', 'tier': tier, 'pins': {'nb': nb}, 'weight': 12, 'label': f'task with {nb} mini-batches, interaction order 1..2, cap 2..7'})
    for m in (2, 3, 4) if tier == 'quick' else (2, 3, 4, 5):
        out.append({'cond': 'step', 'm': m, 'fresh': False, 'anystate': True, 'pins': {}, 'weight': 4 ** m, 'label': f'm={m}, counts 0..3 in any combination (a candidate list that changed over the history)'})
    for m in BOUNDS[tier]:
        for fresh in (False, True):
            if m >= 6 and not fresh:
                for d1 in (-1, 0, 1):
                    for d2 in (-1, 0, 1):
                        if abs(d1 - d2) <= 1:
                            out.append({'cond': 'step', 'm': m, 'fresh': fresh, 'pins': {}, 'rel': [d1, d2], 'weight': 2 ** m, 'label': f'm={m},c1-c0={d1},c2-c0={d2}'})
            else:
                out.append({'cond': 'step', 'm': m, 'fresh': fresh, 'pins': {}, 'weight': 2 ** m, 'label': f'm={m},fresh={fresh}'})
    return out


def run_export(job):
    """export clause: the evaluation counts returned by the streaming loop (and written to combination_estimation_counts.json) equal
    the number of batches in which each combination was selected - explored through the real loop, including the tail batch"""
    from harness import C08
    from harness import pipeline as PL
    cr, cu, tr, ie = PL.real_modules()
    loader.record_functions('outrank/core_ranking.py', ['estimate_importances_minibatches', 'prior_combinations_sample'])
    st = {}
    CASES = [(1025, 1026), (1030, 2000), (1025, 1025), (5, 2), (4, 1), (2051, 1025)]

    def setup(ctx):
        st['case'] = z3.Int('case')
        ctx.assume(st['case'] >= 0, st['case'] < len(CASES))

    def body(ctx, out):
        n, mb = CASES[int(SInt(st['case'], 0, len(CASES) - 1))]
        lines = [C08.line(i, 0) for i in range(n)]
        rec = C08.drive_loop(cr, cu, [','.join(C08.COLS) + '\n'] + lines, 1, mb)
        recount = Counter(c for b in rec['sel'] for c in b)
        ok = {k: v for k, v in rec['counts'].items() if v} == dict(recount)
        if ok and not out.twin:
            out.concrete_ok()
        else:
            out.concrete_fail({'cond': 'export', 'n': n, 'mb': mb}, 'returned evaluation counts differ from the selections')
        out.sample({'lines': n, 'minibatch': mb, 'counts': {str(k): v for k, v in rec['counts'].items()}})
    return hutil.run_symx(job, setup, body)


def drive_export_file(cap, nbatches, order, preload=None):
    """the real ranking task (4 features + label, interaction tuples, pairwise mode) with a recording wrapper around the sampler;
    returns (selections made, contents of combination_estimation_counts.json)"""
    import json
    import os
    import shutil
    import tempfile
    from harness import pipeline as PL
    cr, cu, tr, ie = PL.real_modules()
    cols = ['fa', 'fb', 'fc', 'fd', 'label']
    mb = 3
    rows = [[f'a{i % 2}', f'b{i % 3}', f'c{(i // 2) % 2}', f'd{(i * 5) % 4}', str((i + i // 3) % 2)] for i in range(mb * nbatches)]
    d = tempfile.mkdtemp(prefix='c07x-', dir='/var/tmp')
    os.makedirs(os.path.join(d, 'in'))
    with open(os.path.join(d, 'in', 'data.csv'), 'w') as f:
        f.write(','.join(cols) + '\n' + ''.join(','.join(r) + '\n' for r in rows))
    args = PL.cli_args(['--data_path', os.path.join(d, 'in'), '--data_source', 'csv-raw', '--output_folder', os.path.join(d, 'out'), '--heuristic', 'MI-numba-randomized',
                        '--subsampling', '1', '--minibatch_size', str(mb), '--disable_tqdm', 'True', '--num_threads', '1', '--target_ranking_only', 'False',
                        '--interaction_order', str(order), '--combination_number_upper_bound', str(cap)])
    PL.fresh_state()
    sel = Counter()
    # the counter is process-global: what an earlier part of the history left in it (here: both orders of one pair of interaction
    # columns, a state long runs reach - the thorough tier reaches it through the task itself) is still there and is exported too
    for k, v in (preload or {}).items():
        cr.GLOBAL_PRIOR_COMB_COUNTS[k] = v
        sel[k] += v
    real = cr.prior_combinations_sample

    def wrap(combinations, a):
        res = real(combinations, a)
        sel.update(tuple(c) for c in res)
        return res
    saved = (cr.prior_combinations_sample, tr.Pool)
    cr.prior_combinations_sample, tr.Pool = wrap, PL.SerialPool
    cwd = os.getcwd()
    os.chdir(d)
    try:
        try:
            tr.outrank_task_conduct_ranking(args)
        except SystemExit:
            pass
        fn = os.path.join(d, 'out', 'combination_estimation_counts.json')
        dumped = json.load(open(fn)) if os.path.exists(fn) else None
    finally:
        os.chdir(cwd)
        shutil.rmtree(d, ignore_errors=True)
        cr.prior_combinations_sample, tr.Pool = saved
    return sel, dumped


def export_file_problem(cap, nbatches, order, preload=None):
    import ast as _ast
    sel, dumped = drive_export_file(cap, nbatches, order, preload)
    if dumped is None:
        return 'combination_estimation_counts.json was not written'
    got = {}
    for k, v in dumped.items():
        got[tuple(_ast.literal_eval(k))] = got.get(tuple(_ast.literal_eval(k)), 0) + v
    exp = {k: v for k, v in sel.items() if v}
    got = {k: v for k, v in got.items() if v}
    def canon(d):
        # a report may name a combination by its members in any order; what it may not do is lose or merge evaluations
        o = {}
        for k, v in d.items():
            o[tuple(sorted(k))] = o.get(tuple(sorted(k)), 0) + v
        return o
    if got != exp and canon(got) != canon(exp):
        miss = sorted(k for k in exp if got.get(k) != exp[k])[:2]
        return f'{len(exp)} candidates were selected at least once, the exported file reports {len(got)} ({sum(got.values())} evaluations vs {sum(exp.values())} made); e.g. {[(k, exp[k], got.get(k)) for k in miss]}'
    return None


NB_MAX = {'quick': 4, 'thorough': 14}


def preload_state(p1, p2):
    return {('fa AND fd', 'fa AND fb'): p1, ('fa AND fb', 'fa AND fd'): p2}


def run_exportfile(job):
    st = {}

    def setup(ctx):
        st['cap'], st['nb'], st['order'] = z3.Int('cap'), z3.Int('nb'), z3.Int('order')
        st['p1'], st['p2'] = z3.Int('p1'), z3.Int('p2')
        ctx.assume(st['cap'] >= 2, st['cap'] <= 7, st['nb'] >= 1, st['nb'] <= NB_MAX[job.get('tier', 'quick')], st['order'] >= 1, st['order'] <= 2)
        ctx.assume(st['p1'] >= -1, st['p1'] <= 2, st['p2'] >= -1, st['p2'] <= 2, (st['p1'] == -1) == (st['p2'] == -1))
        ctx.assume(z3.Implies(st['p1'] >= 0, z3.And(st['order'] == 2, st['nb'] <= 2)))
        for k, v in job['pins'].items():
            ctx.assume(z3.Int(k) == v)

    def body(ctx, out):
        cap, nb, order = int(SInt(st['cap'], 2, 7)), int(SInt(st['nb'], 1, NB_MAX[job.get('tier', 'quick')])), int(SInt(st['order'], 1, 2))
        p1, p2 = int(SInt(st['p1'], -1, 2)), int(SInt(st['p2'], -1, 2))
        w = {'cond': 'export-file', 'cap': cap, 'nb': nb, 'order': order, 'preload': [p1, p2] if p1 >= 0 else None}
        try:
            p = export_file_problem(cap, nb, order, preload_state(p1, p2) if p1 >= 0 else None)
        except Exception as e:
            p = f'{type(e).__name__}: {e}'
        if p or out.twin:
            out.concrete_fail(w, p or 'twin')
        else:
            out.concrete_ok()
        out.sample(w)
    return hutil.run_symx(job, setup, body)


def run_largecap(job):
    """the cap around the module's own constant MAX_FEATURES_3MR with a candidate list longer than it: exactly min(cap, m) selected"""
    import ast as _ast
    src = open(loader.repo_path('outrank/core_ranking.py')).read()
    MAXC = 10 ** 4
    for n in _ast.parse(src).body:
        if isinstance(n, _ast.Assign) and getattr(n.targets[0], 'id', '') == 'MAX_FEATURES_3MR':
            MAXC = eval(compile(_ast.Expression(n.value), '<const>', 'eval'))
    ns = load_fn()
    f, G = ns['prior_combinations_sample'], ns['GLOBAL_PRIOR_COMB_COUNTS']
    m = MAXC + 50
    C = [(f'f{i}', 'label') for i in range(m)]
    st = {}

    def setup(ctx):
        st['cap'] = z3.Int('cap')
        ctx.assume(st['cap'] >= MAXC - 2, st['cap'] <= MAXC + 52)

    def body(ctx, out):
        G.clear()
        cap = int(SInt(st['cap'], MAXC - 2, MAXC + 52))
        res = f(list(C), types.SimpleNamespace(combination_number_upper_bound=cap, heuristic='MI-numba-randomized'))
        ok = len(res) == min(cap, m) and len(set(res)) == len(res) and sum(G.values()) == len(res)
        if ok and not out.twin:
            out.concrete_ok()
        else:
            out.concrete_fail({'cond': 'large-cap', 'm': m, 'cap': cap}, f'{len(res)} candidates selected with cap {cap} out of {m}')
        out.sample({'candidates': m, 'cap': cap, 'selected': len(res)})
    return hutil.run_symx(job, setup, body)


def cands(m):
    return [(f'f{i}', f'g{i}') for i in range(m)]


def run_job(job):
    if job['cond'] == 'export':
        return run_export(job)
    if job['cond'] == 'large-cap':
        return run_largecap(job)
    if job['cond'] == 'export-file':
        return run_exportfile(job)
    m, fresh = job['m'], job['fresh']
    ANY = bool(job.get('anystate'))      # a candidate list that changed over the history: counts 0..3 in ANY combination (no invariant to assume or restore)
    CMAX = 3 if ANY else globals()['CMAX']
    ns = load_fn()
    f = ns['prior_combinations_sample']
    G = ns['GLOBAL_PRIOR_COMB_COUNTS']
    C = cands(m)
    st = {}

    def setup(ctx):
        st['c'] = [z3.Int(f'c{i}') for i in range(m)]
        for v in st['c']:
            ctx.assume(v >= 0, v <= CMAX)
        if not ANY:
            for a in st['c']:
                for b in st['c']:
                    ctx.assume(a - b <= 1)
        st['cap'] = z3.Int('cap')
        ctx.assume(st['cap'] >= 0, st['cap'] <= m + 1)
        # the counter is process-global: it may already hold counts of OTHER candidate lists (e.g. interaction tuples)
        st['foreign'] = z3.Int('foreign')
        ctx.assume(st['foreign'] >= -1, st['foreign'] <= CMAX)
        for k, v in job['pins'].items():
            ctx.assume(z3.Int(k) == v)
        if job.get('rel'):
            ctx.assume(st['c'][1] - st['c'][0] == job['rel'][0], st['c'][2] - st['c'][0] == job['rel'][1])
        if fresh:
            for v in st['c']:
                ctx.assume(v == 0)

    def wit(mdl):
        return {'cond': 'step', 'm': m, 'fresh': fresh, 'anystate': ANY, 'counts': [mdl.eval(v, model_completion=True).as_long() for v in st['c']],
                'cap': mdl.eval(st['cap'], model_completion=True).as_long(), 'foreign': mdl.eval(st['foreign'], model_completion=True).as_long()}

    def body(ctx, out):
        G.clear()
        fo = SInt(st['foreign'], -1, CMAX)
        if bool(fo >= 0):
            G[('other', 'list')] = fo
        if not fresh:
            for k, v in zip(C, st['c']):
                G[k] = SInt(v, 0, CMAX)
        args = types.SimpleNamespace(combination_number_upper_bound=SInt(st['cap'], 0, m + 1))
        res = f(list(C), args)
        pre = dict(zip(C, st['c']))
        bad = []
        # structural part is concrete on this path
        sel = list(res)
        ok_struct = len(set(sel)) == len(sel) and all(s in pre for s in sel)
        bad.append(z3.BoolVal(not ok_struct))
        bad.append(len(sel) != z3.If(st['cap'] < m, st['cap'], m))
        if ok_struct:
            unsel = [k for k in C if k not in sel]
            for s in sel:
                for u in unsel:
                    bad.append(pre[s] > pre[u])
            post = {k: symx.zint(G[k]) if k in G else None for k in C}
            bad.append(z3.BoolVal(any(v is None for v in post.values()) or set(G.keys()) - {('other', 'list')} != set(C)))
            if ('other', 'list') in G:
                bad.append(symx.zint(G[('other', 'list')]) != st['foreign'])
            if all(v is not None for v in post.values()):
                for k in C:
                    bad.append(post[k] != pre[k] + (1 if k in sel else 0))
                if not ANY:
                    for a in C:
                        for b in C:
                            bad.append(post[a] - post[b] > 1)
        out.never(ctx, z3.Or(bad), wit, 'post-condition of one sampling step')
        out.sample({'m': m, 'selected': [list(s) for s in sel], 'decisions': len(ctx.trace)})
    return hutil.run_symx(job, setup, body)


def replay(w):
    loader.use_repo_on_syspath()
    import outrank.core_ranking as cr
    if w['cond'] == 'large-cap':
        C = [(f'f{i}', 'label') for i in range(w['m'])]
        cr.GLOBAL_PRIOR_COMB_COUNTS.clear()
        res = cr.prior_combinations_sample(list(C), types.SimpleNamespace(combination_number_upper_bound=w['cap'], heuristic='MI-numba-randomized'))
        cr.GLOBAL_PRIOR_COMB_COUNTS.clear()
        if len(res) != min(w['cap'], w['m']):
            return {'reproduced': True, 'signature': 'C07:large-cap', 'what': f'{w["m"]} candidates, cap {w["cap"]}: {len(res)} selected instead of {min(w["cap"], w["m"])}'}
        return {'reproduced': False, 'what': 'min(cap, m) selected'}
    if w['cond'] == 'export-file':
        try:
            p = export_file_problem(w['cap'], w['nb'], w['order'], preload_state(*w['preload']) if w.get('preload') else None)
        except Exception as e:
            p = f'{type(e).__name__}: {e}'
        if p:
            return {'reproduced': True, 'signature': 'C07:export-file:' + ('exception' if 'Error' in p.split(':')[0] else 'counts'), 'what': f'ranking task, 4 features, {w["nb"]} mini-batches of 3 rows, interaction order {w["order"]}, cap {w["cap"]}' + (f', counter already holding {preload_state(*w["preload"])} from earlier batches' if w.get('preload') else '') + f': {p}'}
        return {'reproduced': False, 'what': 'exported counts equal the selections made'}
    if w['cond'] == 'export':
        from harness import C08
        from harness import pipeline as PL
        crm, cu, tr, ie = PL.real_modules()
        lines = [C08.line(i, 0) for i in range(w['n'])]
        rec = C08.drive_loop(crm, cu, [','.join(C08.COLS) + '\n'] + lines, 1, w['mb'])
        recount = Counter(c for b in rec['sel'] for c in b)
        if {k: v for k, v in rec['counts'].items() if v} != dict(recount):
            return {'reproduced': True, 'signature': 'C07:export', 'what': f'{w["n"]} rows, minibatch {w["mb"]}: evaluation counts returned by the streaming loop {rec["counts"]} vs selections per batch {dict(recount)}'}
        return {'reproduced': False, 'what': 'counts equal selections'}
    C = cands(w['m'])
    cr.GLOBAL_PRIOR_COMB_COUNTS.clear()
    if w.get('foreign', -1) >= 0:
        cr.GLOBAL_PRIOR_COMB_COUNTS[('other', 'list')] = w['foreign']
    if not w['fresh']:
        for k, v in zip(C, w['counts']):
            cr.GLOBAL_PRIOR_COMB_COUNTS[k] = v
    pre = dict(zip(C, w['counts'] if not w['fresh'] else [0] * len(C)))
    cap = w['cap']
    res = cr.prior_combinations_sample(list(C), types.SimpleNamespace(combination_number_upper_bound=cap))
    post = dict(cr.GLOBAL_PRIOR_COMB_COUNTS)
    post.pop(('other', 'list'), None)
    cr.GLOBAL_PRIOR_COMB_COUNTS.clear()
    probs = []
    if len(res) != min(cap, len(C)):
        probs.append(f'{len(res)} selected, expected min(cap, m) = {min(cap, len(C))}')
    if len(set(res)) != len(res) or any(r not in pre for r in res):
        probs.append('selection is not a duplicate-free subset of the candidates')
    else:
        uns = [k for k in C if k not in res]
        if any(pre[s] > pre[u] for s in res for u in uns):
            probs.append('a more-evaluated candidate was preferred to a less-evaluated one')
        if any(post.get(k) != pre[k] + (1 if k in res else 0) for k in C):
            probs.append('counter does not equal pre-count + 1 exactly on the selected candidates')
        if not w.get('anystate') and len(post) == len(C) and max(post.values()) - min(post.values()) > 1:
            probs.append('evaluation counts differ by more than one afterwards')
    if probs:
        return {'reproduced': True, 'signature': 'C07:step', 'what': f'pre-counts {w["counts"]}, cap {cap}: ' + '; '.join(probs), 'detail': {'selected': [list(r) for r in res]}}
    return {'reproduced': False, 'what': 'post-conditions hold on the real function'}
