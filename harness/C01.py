"""C01 - plain estimator == plug-in Shannon MI (symx on the real kernel source)."""
from __future__ import annotations

import itertools

import z3

from harness import kernel as KM
from vlib import hutil, symx
from vlib.symx import SReal

ID = 'C01'

MANIFEST = {
    'engine': 'symx',
    'text': 'Bounded symbolic model checking of the real kernel source: for every pair of code vectors within the bound (n<=4 codes<3 quick; n<=6 binary, n<=5 ternary, n=4 quaternary thorough) z3 shows on every path that the returned value equals the plug-in MI written from its definition; symmetry, range, constant-vector and self-score corollaries are separate obligations. Path sets are certified complete (decision-tree audit, unsat of the uncovered remainder). A further condition uses codes {0, 7, 2^20-1} (the top of the documented code range; the 2^20-cell histogram is modelled as a write log).',
    'note': 'Exact reals instead of float32/fastmath (compiled kernel compared per path within 2e-4); numba = identity decorator; numpy replaced by the xnp stand-in; nothing is claimed beyond the stated n and code bounds.',
    'technique': 'symbolic execution of the real Python source with z3 (linear real arithmetic over If-tables, ln as free constants per prime), per-path unsat of result != definition',
}

BOUNDS = {
    'quick': {'sparse-codes': [(3, 3)], 'identity': [(1, 3), (2, 3), (3, 3), (4, 2), (4, 3)], 'symmetry': [(3, 2), (3, 3)], 'corollaries': [(3, 3), (4, 2)]},
    'thorough': {'sparse-codes': [(3, 3), (4, 3)], 'identity': [(1, 4), (2, 4), (3, 4), (4, 4), (5, 3), (6, 2), (7, 2), (6, 3), (8, 2), (5, 4)], 'symmetry': [(3, 3), (4, 2)], 'corollaries': [(4, 3), (5, 2)]},
}

INFO = {
    'engine': 'symx (own z3-backed path explorer over the real source) + z3 4.x/5.x linear real arithmetic',
    'explanation': 'Every element of both code vectors is a symbolic integer; the real source of mutual_info_estimator_numba and its callees '
                   'is executed on them; per path the solver decides result != plug-in MI (written from the definition as an If-table over counts, '
                   'ln as linear forms over free constants ln p). unsat on every path of a certified-complete path set = holds for every pair within the bound.',
    'bounds': {t: {c: [f'n={n},codes<{k}' for n, k in v] for c, v in b.items()} for t, b in BOUNDS.items()},
    'outside': ['float32/fastmath rounding (exact reals; the compiled kernel is compared per path within 2e-4)', 'n beyond the bound, codes up to 2^20 (the code value only sizes and indexes the histogram)'],
    'assumptions': ['numba stub: njit = identity, prange = range (checked per path against the compiled kernel)',
                    'xnp numpy stand-in (zeros/max/nonzero/where/count_nonzero/sum/log/fancy indexing) follows numpy semantics on exact values',
                    'AST transforms: exact division, if-conversion of `if c: x -= e`',
                    'ln(a/b) = sum e_p*LP_p over free constants LP_p; inequalities additionally use rational enclosures of ln 2,3,5,7'],
    'job_timeout': {'quick': 240, 'thorough': 2400},
}


SPARSE = [0, 7, 2 ** 20 - 1]   # codes at the top of the documented range: the histogram has 2^20 cells


def jobs(tier):
    KM.warm()
    KM.kernel()
    out = []
    for cond, lst in BOUNDS[tier].items():
        for n, K in lst:
            pl = 0
            tot = K ** n
            while K ** pl < 16 and pl < n - 1 and tot > 40:
                pl += 1
            if cond == 'symmetry':
                pl = min(n, 2)
            if cond == 'sparse-codes':
                for a in SPARSE:
                    for b in SPARSE:
                        out.append({'cond': cond, 'n': n, 'K': K, 'pins': {'x0': a, 'y0': b}, 'weight': K ** (2 * n), 'label': f'n={n},codes in {SPARSE},x0={a},y0={b}'})
                continue
            for pins in hutil.product_pins([(f'x{i}', range(K)) for i in range(pl)]):
                out.append({'cond': cond, 'n': n, 'K': K, 'pins': pins, 'weight': K ** (n - pl) * n, 'label': f'n={n},K={K},{pins}'})
    return out


def run_job(job):
    n, K, cond = job['n'], job['K'], job['cond']
    Kn = KM.kernel()
    f = Kn['mutual_info_estimator_numba']
    st = {}

    vals = SPARSE if cond == 'sparse-codes' else None

    def setup(ctx):
        st['X'], st['Y'] = KM.declare_vectors(ctx, n, K, job['pins'], vals=vals)
        st['ref'] = KM.ref_mi(st['X'], st['Y'], n, K, vals=vals)
        if cond == 'corollaries':
            st['HX'] = KM.ref_entropy(st['X'], n, K)
            st['HY'] = KM.ref_entropy(st['Y'], n, K)

    def wit(m):
        return {'cond': cond, 'Y': [m.eval(v, model_completion=True).as_long() for v in st['Y']],
                'X': [m.eval(v, model_completion=True).as_long() for v in st['X']]}

    def body(ctx, out):
        Xa, Ya = KM.arrs(st['X'], st['Y'], K, vals=vals)
        got = SReal.of(f(Ya, Xa, 1.0, False))
        if cond in ('identity', 'sparse-codes'):
            out.never(ctx, got.z != st['ref'], wit, 'result != plug-in MI')
            # per-path translation validation: one witness of this path on the compiled kernel
            if not out.twin and ctx.check() == 'sat':
                m = ctx.model()
                w = wit(m)
                sym = KM.numeric(got.z, m)
                real = KM.real_mi(w['Y'], w['X'])
                out.validated += 1
                if real != real or real in (float('inf'), float('-inf')):
                    out.candidates.append({'witness': dict(w, label='non-finite score on the compiled kernel')})
                elif not KM.close(sym, real):
                    out.error = f'stand-in disagrees with the compiled kernel on {w}: symbolic {sym} vs real {real}'
                out.sample({'Y': w['Y'], 'X': w['X'], 'score': real, 'decisions': len(ctx.trace)})
        elif cond == 'symmetry':
            Xb, Yb = KM.arrs(st['X'], st['Y'], K)
            got2 = SReal.of(f(Xb, Yb, 1.0, False))
            out.never(ctx, got.z != got2.z, wit, 'f(Y,X) != f(X,Y)')
        else:
            enc = symx.ln_enclosures()
            X, Y = st['X'], st['Y']
            out.never(ctx, z3.And(*enc, got.z < 0), wit, 'negative')
            out.never(ctx, z3.And(*enc, z3.Or(got.z > st['HX'], got.z > st['HY'])), wit, 'above min entropy')
            const = z3.Or(z3.And([X[i] == X[0] for i in range(n)]), z3.And([Y[i] == Y[0] for i in range(n)]))
            out.never(ctx, z3.And(const, got.z != 0), wit, 'constant vector with non-zero score')
            same = z3.And([X[i] == Y[i] for i in range(n)])
            out.never(ctx, z3.And(same, got.z != st['HY']), wit, 'self score != entropy')
    return hutil.run_symx(job, setup, body, wit=wit)


def replay(w):
    try:
        return _replay(w)
    except Exception as e:  # the real build raised
        return {'reproduced': True, 'signature': f'C01:raises-{type(e).__name__}', 'what': f'the real estimator raises {type(e).__name__}: {str(e)[:200]} on {({k: v for k, v in w.items() if k in ("Y", "X", "r", "corr", "Y2", "map")})}'}


def _replay(w):
    Y, X = w['Y'], w['X']
    got = KM.real_mi(Y, X)
    exp = KM.c_mi(Y, X)
    lab = w.get('label', '')
    bad = None
    if not KM.close(got, exp):
        bad = f'mutual_info_estimator_numba(Y={Y}, X={X}, 1.0, False) = {got:.6f}, plug-in MI = {exp:.6f}'
        sig = 'C01:identity'
    elif not KM.close(got, KM.real_mi(X, Y)):
        bad = f'asymmetric: f(Y,X)={got:.6f} f(X,Y)={KM.real_mi(X, Y):.6f} for Y={Y}, X={X}'
        sig = 'C01:symmetry'
    elif got < -2e-4 or got > min(KM.c_entropy(X), KM.c_entropy(Y)) + 2e-4:
        bad = f'score {got:.6f} outside [0, min(H(X),H(Y))] for Y={Y}, X={X}'
        sig = 'C01:range'
    if bad:
        return {'reproduced': True, 'signature': sig, 'what': bad, 'detail': {'got': got, 'expected': exp, 'label': lab}}
    return {'reproduced': False, 'what': f'real kernel gives {got:.6f}, plug-in MI {exp:.6f}'}
