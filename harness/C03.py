"""C03 - cardinality correction = H(Y*|X) - H(Y|X) (symx)."""
from __future__ import annotations

import types

import z3

from harness import kernel as KM
from vlib import hutil, loader, symx, xnp
from vlib.symx import SReal

ID = 'C03'

MANIFEST = {
    'engine': 'symx',
    'text': 'Bounded symbolic model checking of the real kernel source with correction on: for every pair of code vectors within the bound that is not element-wise identical, z3 shows result == H(Y*|X) - H(Y|X) with Y* the cyclic displacement by stratum size, written independently from counts; corollaries (constant feature -> 0, all-distinct identifier -> 0, self score = entropy) are separate obligations, and the heuristic-name -> correction-flag dispatch of numba_mi is checked on the real source with a recording kernel.',
    'note': 'Exact reals; stand-ins as in C01. The ranking corollary (informative feature outranks noise at n >= 4000 for all seeds) is statistical and NOT covered by any bounded encoding.',
    'technique': 'symbolic execution of the real Python source with z3; per-path unsat of result != displaced-copy formula',
}

BOUNDS = {
    'quick': {'identity': [(2, 3), (3, 3), (4, 2), (4, 3)], 'corollaries': [(3, 3), (4, 2)], 'identifier': [(3, 3), (4, 4)], 'flag': [(0, 0)]},
    'thorough': {'identity': [(3, 4), (4, 4), (5, 3), (6, 2), (7, 2), (6, 3)], 'corollaries': [(4, 3), (5, 2)], 'identifier': [(4, 4), (5, 5)], 'flag': [(0, 0)]},
}

NAMES = ['MI', 'MI-numba-randomized', 'MI-numba-3mr', 'MI-numba', 'max-value-coverage', 'AMI', 'correlation-Pearson', 'Constant', 'surrogate-SGD']

INFO = {
    'engine': 'symx + z3',
    'explanation': 'Vectors symbolic, correction flag on; per path z3 decides result != H(Y*|X)-H(Y|X) (reference written from counts, strata of size 1 contribute to neither term).',
    'bounds': {t: {c: [f'n={n},codes<{k}' for n, k in v] for c, v in b.items()} for t, b in BOUNDS.items()},
    'outside': ['ranking corollary at n >= 4000 over all seeds (statistical; not decidable by a bounded encoding)', 'float32 rounding'],
    'assumptions': ['stand-ins and transforms as in C01'],
    'job_timeout': {'quick': 240, 'thorough': 2400},
}


def jobs(tier):
    KM.warm()
    KM.kernel()
    out = []
    for cond, lst in BOUNDS[tier].items():
        for n, K in lst:
            if cond == 'flag':
                out.append({'cond': cond, 'n': 0, 'K': 0, 'pins': {}, 'label': 'dispatch'})
                continue
            pl = min(n, 2)
            for pins in hutil.product_pins([(f'x{i}', range(K)) for i in range(pl)]):
                out.append({'cond': cond, 'n': n, 'K': K, 'pins': pins, 'weight': K ** (n - pl) * n, 'label': f'n={n},K={K},{pins}'})
    return out


FLAG_PAIRS = (([0, 1, 1], [1, 0, 1]), ([0, 0, 1, 1], [0, 1, 2, 3]), ([0, 1, 2, 3], [0, 0, 1, 1]), ([5, 5, 5], [0, 1, 1]),
              ([5, 8, 5, 8], [0, 1, 0, 1]), ([0, 1, 0, 1], [0, 1, 0, 1]), ([2, 2, 7], [1, 1, 3]))      # incl. order-preserving relabellings of one another


def forwarded_ok(a, b, fa, tb, corr=True):
    """what reaches the estimator must carry the feature's and the target's partitions (any injective recoding does, C02) and must be
    element-wise identical exactly when the two columns are - the estimator treats identical vectors as a self-pair"""
    a, b = [int(v) for v in a], [int(v) for v in b]
    part = lambda u, v: len(u) == len(v) and all((u[i] == u[j]) == (v[i] == v[j]) for i in range(len(v)) for j in range(len(v)))
    return part(a, fa) and part(b, tb) and (not corr or (a == b) == (fa == tb))      # the self-pair test only matters with correction on


def run_flag(job):
    """numba_mi from the real importance_estimator source with a recording kernel: flag == (name == 'MI-numba-randomized')"""
    out = hutil.Out(job)
    rec = []
    tok = types.SimpleNamespace(mutual_info_estimator_numba=lambda a, b, approximation_factor=None, cardinality_correction=None: rec.append((a, b, approximation_factor, cardinality_correction)) or 0.25)
    import numpy as np
    ns = loader.load('outrank/algorithms/importance_estimator.py', only=['numba_mi'], extra={'np': np, 'ranking_mi_numba': tok, 'logger': types.SimpleNamespace(warning=lambda *a: None)})
    for name in NAMES:
        for r in (1.0, 0.5):
            rec.clear()
            ok = True
            # the feature goes in first and the conditioning target second, whatever their cardinalities
            for fa, tb in FLAG_PAIRS:
                rec.clear()
                res = ns['numba_mi'](np.array([[v] for v in fa]), np.array(tb), name, r)
                ok = ok and len(rec) == 1 and rec[0][3] == (name == 'MI-numba-randomized') and float(rec[0][2]) == r and forwarded_ok(rec[0][0], rec[0][1], fa, tb, name == 'MI-numba-randomized') and res == 0.25
            if ok and not out.twin:
                out.concrete_ok()
            else:
                out.concrete_fail({'cond': 'flag', 'name': name, 'ratio': r}, 'numba_mi forwards a wrong flag/ratio/vector')
    out.sample({'names': NAMES})
    return {'paths': len(NAMES) * 2, 'decisions': len(NAMES) * 2, 'queries': 0, 'solver_s': 0, 'obligations': out.obligations, 'discharged': out.discharged,
            'candidates': out.candidates, 'inconclusive': [], 'validated': 0, 'samples': out.samples, 'cert': {'ok': True, 'kind': 'finite list of names enumerated'}}


def run_job(job):
    n, K, cond = job['n'], job['K'], job['cond']
    if cond == 'flag':
        return run_flag(job)
    f = KM.kernel()['mutual_info_estimator_numba']
    st = {}

    def setup(ctx):
        st['X'], st['Y'] = KM.declare_vectors(ctx, n, K, job['pins'])
        if cond == 'identifier':
            ctx.assume(z3.Distinct(*st['Y']))
        elif cond == 'identity':
            ctx.assume(z3.Or([st['X'][i] != st['Y'][i] for i in range(n)]))
            st['ref'] = KM.ref_corrected(st['X'], st['Y'], n, K)
        else:
            st['HY'] = KM.ref_entropy(st['Y'], n, K)

    def wit(m):
        return {'cond': cond, 'Y': [m.eval(v, model_completion=True).as_long() for v in st['Y']],
                'X': [m.eval(v, model_completion=True).as_long() for v in st['X']]}

    def body(ctx, out):
        Xa, Ya = KM.arrs(st['X'], st['Y'], K)
        got = SReal.of(f(Ya, Xa, 1.0, True))
        X, Y = st['X'], st['Y']
        same = z3.And([X[i] == Y[i] for i in range(n)])
        if cond == 'identity':
            out.never(ctx, got.z != st['ref'], wit, 'corrected score != H(Y*|X) - H(Y|X)')
        elif cond == 'identifier':
            out.never(ctx, z3.And(z3.Not(same), got.z != 0), wit, 'all-distinct identifier feature with non-zero corrected score')
        else:
            out.never(ctx, z3.And(z3.Not(same), z3.And([Y[i] == Y[0] for i in range(n)]), got.z != 0), wit, 'constant feature with non-zero corrected score')
            out.never(ctx, z3.And(same, got.z != st['HY']), wit, 'self score != entropy')
        if not out.twin and out.validated < 60 and ctx.check() == 'sat':
            m = ctx.model()
            w = wit(m)
            sym, real = KM.numeric(got.z, m), KM.real_mi(w['Y'], w['X'], 1.0, True)
            out.validated += 1
            if real != real or real in (float('inf'), float('-inf')):
                out.candidates.append({'witness': dict(w, label='non-finite score on the compiled kernel')})
            elif not KM.close(sym, real):
                out.error = f'stand-in disagrees with the compiled kernel on {w}: {sym} vs {real}'
            out.sample({'Y': w['Y'], 'X': w['X'], 'corrected_score': real})
    return hutil.run_symx(job, setup, body, wit=wit)


def replay(w):
    try:
        return _replay(w)
    except Exception as e:  # the real build raised
        return {'reproduced': True, 'signature': f'C03:raises-{type(e).__name__}', 'what': f'the real estimator raises {type(e).__name__}: {str(e)[:200]} on {({k: v for k, v in w.items() if k in ("Y", "X", "r", "corr", "Y2", "map")})}'}


def _replay(w):
    if w['cond'] == 'flag':
        loader.use_repo_on_syspath()
        import numpy as np
        from outrank.algorithms import importance_estimator as ie
        rec = []
        orig = ie.ranking_mi_numba
        ie.ranking_mi_numba = types.SimpleNamespace(mutual_info_estimator_numba=lambda a, b, approximation_factor=None, cardinality_correction=None: rec.append((approximation_factor, cardinality_correction, a, b)) or 0.0)
        bad = False
        try:
            for fa, tb in FLAG_PAIRS:
                rec.clear()
                ie.numba_mi(np.array([[v] for v in fa]), np.array(tb), w['name'], w['ratio'])
                if len(rec) != 1 or rec[0][1] != (w['name'] == 'MI-numba-randomized') or float(rec[0][0]) != w['ratio'] or not forwarded_ok(rec[0][2], rec[0][3], fa, tb, w['name'] == 'MI-numba-randomized'):
                    bad = f'feature {fa}, target {tb}: the estimator received {[(float(r_[0]), r_[1], list(map(int, r_[2])), list(map(int, r_[3]))) for r_ in rec]}'
                    break
        finally:
            ie.ranking_mi_numba = orig
        if bad and w['name'] == 'MI-numba-randomized' and w['ratio'] == 1.0:
            # the consequence on the score itself, with the real estimator
            got = float(ie.numba_mi(np.array([[v] for v in fa]), np.array(tb), w['name'], 1.0))
            exp = KM.c_entropy(fa) if fa == tb else KM.c_corrected(fa, tb)
            bad += f'; score {got:.6f}, H(Y*|X) - H(Y|X) = {exp:.6f}'
        return {'reproduced': bool(bad), 'signature': 'C03:flag-dispatch', 'what': f'numba_mi({w["name"]!r}, ratio={w["ratio"]}): {bad}'}
    Y, X = w['Y'], w['X']
    got = KM.real_mi(Y, X, 1.0, True)
    exp = KM.c_entropy(Y) if X == Y else KM.c_corrected(Y, X)
    if not KM.close(got, exp):
        sig = 'C03:selfpair-by-sum' if (X != Y and sum(X) == sum(Y) and KM.close(got, KM.c_mi(Y, X))) else 'C03:corrected-formula'
        return {'reproduced': True, 'signature': sig, 'what': f'f(Y={Y}, X={X}, corr=True) = {got:.6f}, expected {exp:.6f}', 'detail': {'got': got, 'expected': exp}}
    return {'reproduced': False, 'what': f'{got} == {exp}'}
