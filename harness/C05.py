"""C05 - each emitted score is the selected heuristic applied to the two coded columns (symx)."""
from __future__ import annotations

import glob
import os
import re
import types
from collections import Counter

import z3

from harness import kernel as KM
from harness import pipeline as PL
from vlib import hutil, loader, symx, xnp
from vlib.symx import SInt, SReal

ID = 'C05'

MANIFEST = {
    'engine': 'symx',
    'text': 'Two solver-based parts. (1) Dispatch/orientation: the real mixed_rank_graph -> get_importances_estimate_pairwise -> generate_data_for_ranking -> conduct_feature_ranking -> numba_mi chain runs on real pandas frames whose feature cells (incl. empty string, unicode, digit strings), heuristic name (every documented non-surrogate name, re-collected from README/docs/examples/scripts/benchmarks on every run), mode and label position are symbolic; numba and max-value-coverage leaves stay REAL and each emitted score is compared with an independent recomputation on the raw column contents (plug-in MI, displaced-copy corrected score, largest joint-value frequency), sklearn/scipy leaves are opaque recorders whose arguments must be the injectively coded columns with the label as second argument; no documented name may fall through to the "not defined" constant. (2) max_pair_coverage itself is executed symbolically on symbolic code vectors (with the integer width the pipeline passes) and z3 shows result == max joint-pair count / n; a separate z3 query searches for two different code pairs that the pair-hash identifies. A further condition runs a history of two mini-batches in one process and checks the second batch against its own columns.',
    'note': 'What sklearn mutual_info_classif / adjusted_mutual_info_score / scipy pearsonr compute is trusted (FFI); surrogate heuristics excluded by the statement; frames of 4 rows x 3 columns; max_pair_coverage vectors n<=3 (quick) / 4 (thorough) with codes < 2^15.',
    'technique': 'solver-driven bounded exploration of the real dispatch chain + symbolic execution of max_pair_coverage with z3 (integer arithmetic modulo 10^6 / fixed-width wrap)',
}

STATEMENT_NAMES = ['MI', 'MI-numba-randomized', 'MI-numba-3mr', 'max-value-coverage', 'AMI', 'correlation-Pearson', 'Constant']
POOL = ['', 'é', '10', '010', '10.0']      # empty, unicode, and three different strings that denote the same number
BOUNDS = {'quick': {'dispatch': 4, 'coverage': [2, 3], 'pairhash': [256, 32768]}, 'thorough': {'dispatch': 5, 'coverage': [2, 3, 4], 'pairhash': [256, 32768]}}
INFO = {
    'engine': 'symx + z3 + real pandas',
    'explanation': 'see level text',
    'bounds': {t: {'dispatch': '4-row (thorough 5-row) frames, feature cells from ["", "é", "10", "010", "10.0"], label anywhere among 3 columns, target-only/pairwise, all documented names',
                   'coverage': f'vectors of {b["coverage"]} codes, widths int8/int16/int32', 'pairhash': 'codes below 256 / 32768'} for t, b in BOUNDS.items()},
    'outside': ['the computations inside sklearn/scipy leaves', 'surrogate heuristics', 'frames larger than the bound'],
    'assumptions': ['pool = serial stub (order-preserving contract)', 'numpy scalar arithmetic of max_pair_coverage modelled as: python-int operand outside the dtype raises OverflowError (numpy>=2), in-range products wrap modulo 2^bits'],
    'job_timeout': {'quick': 300, 'thorough': 1800},
}


def documented_names():
    names = set(STATEMENT_NAMES)
    files = ['README.md', 'outrank/__main__.py'] + [p for d in ('docs', 'examples', 'scripts', 'benchmarks') for p in glob.glob(os.path.join(loader.REPO, d, '**', '*'), recursive=True)]
    for f in files:
        p = f if os.path.isabs(f) else os.path.join(loader.REPO, f)
        if not os.path.isfile(p) or os.path.getsize(p) > 2_000_000:
            continue
        try:
            txt = open(p, errors='ignore').read()
        except OSError:
            continue
        for m in re.finditer(r"--heuristic[ =]+['\"]?([A-Za-z0-9_-]+)", txt):
            names.add(m.group(1))
    return sorted(n for n in names if not n.startswith('surrogate'))


# ---- part 1: dispatch ---------------------------------------------------------------------------

def drive(cols, frame, label, heur, target_only, fresh=True):
    import numpy as np
    import pandas as pd
    cr, cu, tr, ie = PL.real_modules()
    if fresh:
        PL.fresh_state()
    cr.GLOBAL_PRIOR_COMB_COUNTS.clear()
    calls = []

    def rec(tag):
        def f(a, b):
            calls.append((tag, np.asarray(a).reshape(-1).tolist(), np.asarray(b).reshape(-1).tolist()))
            return 1000.0 + len(calls)
        return f
    saved = (ie.sklearn_MI, ie.sklearn_mi_adj, ie.pearsonr)
    ie.sklearn_MI, ie.sklearn_mi_adj = rec('sklearn_MI'), rec('sklearn_mi_adj')
    ie.pearsonr = lambda a, b: (rec('pearsonr')(a, b), 0.0)
    warn = []
    saved_log = ie.logger
    ie.logger = types.SimpleNamespace(warning=lambda m, *a: warn.append(str(m)), info=lambda *a: None, debug=lambda *a: None)
    args = types.SimpleNamespace(heuristic=heur, label_column=label, target_ranking_only='True' if target_only else 'False', combination_number_upper_bound=10 ** 4,
                                 reference_model_JSON='', mi_stratified_sampling_ratio=1.0)
    try:
        res = cr.mixed_rank_graph(pd.DataFrame(frame, columns=cols), args, PL.SerialPool(), PL.PB())
    finally:
        ie.sklearn_MI, ie.sklearn_mi_adj, ie.pearsonr = saved
        ie.logger = saved_log
        cr.GLOBAL_PRIOR_COMB_COUNTS.clear()
    return [tuple(t) for t in res.triplet_scores], calls, warn


def same_partition(codes, vals):
    return len(codes) == len(vals) and all((codes[i] == codes[j]) == (vals[i] == vals[j]) for i in range(len(vals)) for j in range(len(vals))) and all(c >= 0 for c in codes)


def max_joint(a, b):
    return max(Counter(zip(a, b)).values()) / len(a)


def check_dispatch(trip, calls, warn, cols, frame, label, heur):
    colv = {c: [r[i] for r in frame] for i, c in enumerate(cols)}
    probs = []
    if any('not defined' in w for w in warn):
        probs.append(f'heuristic {heur!r} falls through to the "not defined" constant score')
        return probs
    if heur == 'Constant':
        if any(s != 0.0 for a, b, s in trip):
            probs.append('Constant with a non-zero score')
        return probs
    by_call = {1000.0 + i + 1: c for i, c in enumerate(calls)}
    expected_tag = {'MI': ('sklearn_MI',), 'AMI': ('sklearn_mi_adj',), 'correlation-Pearson': ('pearsonr',)}
    for a, b, s in trip:
        if a not in colv or b not in colv:
            probs.append(f'triplet names unknown column {a}/{b}')
            break
        if label in (a, b):
            orients = [((b if a == label else a), label)]
        else:
            orients = [(a, b), (b, a)]
        if heur in expected_tag:
            c = by_call.get(s)
            ok = c is not None and c[0] in expected_tag[heur] and any(same_partition(c[1], colv[f]) and same_partition(c[2], colv[t]) for f, t in orients)
            if not ok:
                probs.append(f'({a}, {b}, {s}): not the {expected_tag[heur][0]} leaf applied to the coded contents of ({orients[0][0]}, {orients[0][1]}) with the label second; leaf call {c}')
                break
        elif heur == 'max-value-coverage':
            if not any(abs(s - max_joint(colv[f], colv[t])) < 1e-9 for f, t in orients):
                probs.append(f'({a}, {b}, {s}): largest joint-value frequency is {max_joint(colv[a], colv[b])}')
                break
        elif heur.startswith('MI-numba'):
            corr = heur == 'MI-numba-randomized'

            def codes(v):
                order = sorted(set(v))
                return [order.index(x) for x in v]

            def exp(f, t):
                # "evaluated on the category-coded contents": codes are assigned per column in sorted category order, and the
                # estimator treats element-wise identical CODE vectors as a feature scored against itself (C02)
                Y, X = codes(colv[f]), codes(colv[t])
                if corr:
                    return KM.c_entropy(Y) if Y == X else KM.c_corrected(Y, X)
                return KM.c_mi(Y, X)
            if not any(KM.close(float(s), exp(f, t)) for f, t in orients):
                probs.append(f'({a}, {b}, {s}): {"corrected score" if corr else "plug-in MI"} of the two columns is {exp(*orients[0]):.6f}')
                break
        else:
            probs.append(f'heuristic {heur!r}: no rule in the statement says what it computes (documented name without a definition?)')
            break
    return probs


def run_dispatch(job):
    names = job['names']
    NR = 5 if job.get('tier') == 'thorough' else 4
    loader.record_functions('outrank/algorithms/importance_estimator.py', ['conduct_feature_ranking', 'generate_data_for_ranking', 'get_importances_estimate_pairwise', 'numba_mi'])
    loader.record_functions('outrank/core_ranking.py', ['mixed_rank_graph'])
    loader.record_functions('outrank/algorithms/feature_ranking/ranking_cov_alignment.py', ['max_pair_coverage'])
    st = {}

    def setup(ctx):
        st['cells'] = [z3.Int(f'c{i}') for i in range(NR)]
        for v in st['cells']:
            ctx.assume(v >= 0, v < len(POOL))
        st['lpos'] = z3.Int('lpos')
        st['to'] = z3.Bool('target_only')
        ctx.assume(st['lpos'] >= 0, st['lpos'] < 3)
        st['h'] = z3.Int('h')
        ctx.assume(st['h'] >= 0, st['h'] < len(names))
        for k, v in job['pins'].items():
            ctx.assume(z3.Int(k) == v)

    def body(ctx, out):
        heur = names[int(SInt(st['h'], 0, len(names) - 1))]
        lpos = int(SInt(st['lpos'], 0, 2))
        to = bool(symx.SBool(st['to']))
        fa = [POOL[int(SInt(v, 0, len(POOL) - 1))] for v in st['cells']]
        # the second feature's name is contained in the label's name (names are compared as wholes, never as substrings)
        other = {'label': ['x', 'y', 'x', 'y', 'x'][:NR], 'fa': fa, 'lab': ['m', 'm', 'n', 'n', 'm'][:NR]}
        cols = ['fa', 'lab']
        cols.insert(lpos, 'label')
        frame = [[other[c][i] for c in cols] for i in range(NR)]
        w = {'cond': 'dispatch', 'cols': cols, 'frame': frame, 'heur': heur, 'target_only': to}
        try:
            trip, calls, warn = drive(cols, frame, 'label', heur, to)
            probs = check_dispatch(trip, calls, warn, cols, frame, 'label', heur)
        except Exception as e:
            import traceback
            tb = traceback.extract_tb(e.__traceback__)[-1]
            probs = [f'{type(e).__name__}: {e} ({os.path.basename(tb.filename)}:{tb.lineno} {tb.name})']
        if probs or out.twin:
            out.concrete_fail(w, probs[0] if probs else 'twin')
        else:
            out.concrete_ok()
        out.sample({'heuristic': heur, 'cols': cols, 'fa': fa, 'target_only': to})
    return hutil.run_symx(job, setup, body)


def run_twobatch(job):
    """a history of two mini-batches in one process: the second batch's scores must be the heuristic on the second batch's own columns"""
    st = {}
    HE = ['MI-numba-randomized', 'max-value-coverage', 'MI-numba-3mr']
    P2 = ['a', 'b', 'c', 'd']

    def setup(ctx):
        st['cells'] = [z3.Int(f'c{i}') for i in range(4)]
        for v in st['cells']:
            ctx.assume(v >= 0, v < len(P2))
        st['h'] = z3.Int('h')
        ctx.assume(st['h'] >= 0, st['h'] < len(HE))
        for k, v in job['pins'].items():
            ctx.assume(z3.Int(k) == v)

    def body(ctx, out):
        heur = HE[int(SInt(st['h'], 0, len(HE) - 1))]
        fa2 = [P2[int(SInt(v, 0, len(P2) - 1))] for v in st['cells']]
        cols = ['fa', 'fb', 'label']
        f1 = [['a', 'm', 'x'], ['b', 'm', 'y'], ['a', 'n', 'x'], ['b', 'n', 'y']]
        f2 = [[fa2[i], ['n', 'o', 'n', 'o'][i], ['x', 'y', 'y', 'x'][i]] for i in range(4)]
        w = {'cond': 'two-batches', 'cols': cols, 'frame1': f1, 'frame': f2, 'heur': heur, 'target_only': False}
        try:
            drive(cols, f1, 'label', heur, False, fresh=True)
            trip, calls, warn = drive(cols, f2, 'label', heur, False, fresh=False)
            probs = check_dispatch(trip, calls, warn, cols, f2, 'label', heur)
        except Exception as e:
            probs = [f'{type(e).__name__}: {e}']
        if probs or out.twin:
            out.concrete_fail(w, probs[0] if probs else 'twin')
        else:
            out.concrete_ok()
        out.sample({'heuristic': heur, 'second batch fa': fa2})
    return hutil.run_symx(job, setup, body)


# ---- part 2: max_pair_coverage, symbolically ----------------------------------------------------

class NpInt(SInt):
    """a numpy integer scalar of a fixed width holding a symbolic value: numpy>=2 scalar arithmetic"""
    bits = 32

    def _wrap(self, r):
        b = self.bits
        if isinstance(r, int):
            return ((r + 2 ** (b - 1)) % 2 ** b) - 2 ** (b - 1)
        if -2 ** (b - 1) <= r.lo and r.hi < 2 ** (b - 1):
            out = NpInt(r.e, r.lo, r.hi)
        else:
            out = NpInt((r.e + 2 ** (b - 1)) % 2 ** b - 2 ** (b - 1), -2 ** (b - 1), 2 ** (b - 1) - 1)
        out.bits = b
        return out

    def _chk(self, o):
        if isinstance(o, int) and not isinstance(o, bool) and not (-2 ** (self.bits - 1) <= o < 2 ** (self.bits - 1)):
            raise OverflowError(f'Python integer {o} out of bounds for int{self.bits}')

    def __mul__(self, o):
        self._chk(o)
        return self._wrap(SInt.__mul__(self, o))

    __rmul__ = __mul__

    def __sub__(self, o):
        self._chk(o)
        return self._wrap(SInt.__sub__(self, o))

    def __add__(self, o):
        self._chk(o)
        return self._wrap(SInt.__add__(self, o))

    def __mod__(self, o):
        self._chk(o)
        return SInt.__mod__(SInt(self.e, self.lo, self.hi), o)


def load_cov():
    typ = types.ModuleType('numpy.typing')
    typ.NDArray = dict()
    return loader.load('outrank/algorithms/feature_ranking/ranking_cov_alignment.py', shims={'numpy': xnp, 'numpy.typing': typ}, div=True, record=['max_pair_coverage'])


def run_coverage(job):
    n, bits = job['n'], job['bits']
    f = load_cov()['max_pair_coverage']
    hi = min(2 ** (bits - 1) - 1, 2 ** 15 - 1)
    st = {}

    def setup(ctx):
        st['a'] = [z3.Int(f'a{i}') for i in range(n)]
        st['b'] = [z3.Int(f'b{i}') for i in range(n)]
        for v in st['a'] + st['b']:
            ctx.assume(v >= 0, v <= hi)

    def wit(m):
        return {'cond': 'coverage', 'bits': bits, 'a': [m.eval(v, model_completion=True).as_long() for v in st['a']], 'b': [m.eval(v, model_completion=True).as_long() for v in st['b']]}

    def mk(e):
        x = NpInt(e, 0, hi)
        x.bits = bits
        return x

    def body(ctx, out):
        A, B = [mk(e) for e in st['a']], [mk(e) for e in st['b']]
        got = SReal.of(f(xnp.Arr(A, f'int{bits}'), xnp.Arr(B, f'int{bits}')))
        a, b = st['a'], st['b']
        cnts = [KM.cnt(z3.And(a[j] == a[i], b[j] == b[i]) for j in range(n)) for i in range(n)]
        mxc = cnts[0]
        for c in cnts[1:]:
            mxc = z3.If(c > mxc, c, mxc)
        out.never(ctx, got.z * n != z3.ToReal(mxc), wit, 'max_pair_coverage != largest joint-pair frequency')
        out.sample({'n': n, 'int_width': bits})
    return hutil.run_symx(job, setup, body, wit=wit)


def run_pairhash(job):
    """exists (a,b) != (c,d) below the bound with the same bucket?  (pure z3 query on the formula read from the source)"""
    import ast
    out = hutil.Out(job)
    src = open(loader.repo_path('outrank/algorithms/feature_ranking/ranking_cov_alignment.py')).read()
    loader.record_functions('outrank/algorithms/feature_ranking/ranking_cov_alignment.py', ['max_pair_coverage'])
    f = load_cov()
    ctx = symx.Ctx()
    symx.CTX = ctx
    bound = job['bound']
    a, b, c, d = [z3.Int(x) for x in 'abcd']
    for v in (a, b, c, d):
        ctx.assume(v >= 0, v < bound)
    # run the real function on the two-row input [(a,b),(c,d)]: an over-count shows as coverage 1.0 for different pairs
    try:
        got = SReal.of(f['max_pair_coverage'](xnp.Arr([SInt(a, 0, bound - 1), SInt(c, 0, bound - 1)], 'int64'), xnp.Arr([SInt(b, 0, bound - 1), SInt(d, 0, bound - 1)], 'int64')))
    except symx.ShimUnsupported as e:
        return {'paths': 1, 'decisions': 1, 'queries': 0, 'solver_s': 0, 'obligations': 1, 'discharged': 0, 'candidates': [], 'inconclusive': [f'stand-in does not model: {e}'],
                'validated': 0, 'samples': [], 'cert': {'ok': bool(job.get('twin')), 'kind': 'not explored'}}

    def wit(m):
        g = lambda v: m.eval(v, model_completion=True).as_long()
        return {'cond': 'coverage', 'bits': 64, 'a': [g(a), g(c)], 'b': [g(b), g(d)]}
    out.never(ctx, z3.And(z3.Or(a != c, b != d), got.z != z3.RealVal('1/2')), wit, f'two different code pairs below {bound} share a bucket')
    out.sample({'bound': bound})
    return {'paths': 1, 'decisions': 1, 'queries': ctx.nq, 'solver_s': round(ctx.tq, 3), 'obligations': out.obligations, 'discharged': out.discharged, 'candidates': out.candidates,
            'inconclusive': out.inconclusive, 'validated': 0, 'samples': out.samples, 'cert': {'ok': True, 'kind': 'single query over the whole bounded domain'}}


def jobs(tier):
    import pandas  # noqa
    PL.real_modules()
    KM.warm()
    names = documented_names()
    b = BOUNDS[tier]
    out = []
    for h in range(len(names)):
        for lpos in range(3):
            out.append({'cond': 'dispatch', 'names': names, 'pins': {'h': h, 'lpos': lpos}, 'weight': 600, 'label': f'{names[h]},label@{lpos}'})
    for h in range(3):
        out.append({'cond': 'two-batches', 'pins': {'h': h}, 'weight': 300, 'label': f'two-batches,h={h}'})
    for n in b['coverage']:
        for bits in (8, 16, 32):
            out.append({'cond': 'coverage', 'n': n, 'bits': bits, 'weight': 10 ** n, 'label': f'n={n},int{bits}'})
    for bd in b['pairhash']:
        out.append({'cond': 'pairhash', 'bound': bd, 'weight': 50, 'label': f'codes<{bd}', 'no_twin': False})
    return out


def run_job(job):
    return {'dispatch': run_dispatch, 'coverage': run_coverage, 'pairhash': run_pairhash, 'two-batches': run_twobatch}[job['cond']](job)


def replay(w):
    import numpy as np
    if w['cond'] in ('dispatch', 'two-batches'):
        try:
            if w['cond'] == 'two-batches':
                drive(w['cols'], w['frame1'], 'label', w['heur'], w['target_only'], fresh=True)
            trip, calls, warn = drive(w['cols'], w['frame'], 'label', w['heur'], w['target_only'], fresh=(w['cond'] == 'dispatch'))
        except Exception as e:
            import traceback
            tb = traceback.extract_tb(e.__traceback__)[-1]
            return {'reproduced': True, 'signature': f'C05:{w["heur"]}:exception:{type(e).__name__}:{tb.name}',
                    'what': f'heuristic {w["heur"]}, columns {w["cols"]}, frame {w["frame"]}: {type(e).__name__}: {e} in {tb.name} ({os.path.basename(tb.filename)}:{tb.lineno})'}
        probs = check_dispatch(trip, calls, warn, w['cols'], w['frame'], 'label', w['heur'])
        if probs:
            kind = 'not-defined' if 'not defined' in probs[0] else 'score'
            return {'reproduced': True, 'signature': f'C05:{w["heur"]}:{kind}' + (':after-another-batch' if w['cond'] == 'two-batches' else ''), 'what': ('second mini-batch in the same process: ' if w['cond'] == 'two-batches' else '') + f'heuristic {w["heur"]}, columns {w["cols"]}, frame {w["frame"]}, target_only={w["target_only"]}: {probs[0]}'}
        return {'reproduced': False, 'what': 'scores equal the heuristic on the coded columns'}
    loader.use_repo_on_syspath()
    from outrank.algorithms.feature_ranking.ranking_cov_alignment import max_pair_coverage
    dt = {8: np.int8, 16: np.int16, 32: np.int32, 64: np.int64}[w['bits']]
    a, b = np.array(w['a'], dtype=dt), np.array(w['b'], dtype=dt)
    exp = max_joint(w['a'], w['b'])
    try:
        got = float(max_pair_coverage(a, b))
    except Exception as e:
        return {'reproduced': True, 'signature': f'C05:max_pair_coverage:{type(e).__name__}', 'what': f'max_pair_coverage({w["a"]}, {w["b"]}) on {dt.__name__} codes raises {type(e).__name__}: {e}'}
    if abs(got - exp) > 1e-9:
        return {'reproduced': True, 'signature': 'C05:max_pair_coverage:bucket-collision', 'what': f'max_pair_coverage({w["a"]}, {w["b"]}) = {got}, largest joint-pair frequency is {exp}'}
    return {'reproduced': False, 'what': f'{got} == {exp}'}
