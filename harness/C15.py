"""C15 - frequency sketches err on one side only (symx on the real CountMinSketch / PrimitiveConstrainedCounter source)."""
from __future__ import annotations

import types
from collections import Counter

import z3

from vlib import hutil, loader, symx, xnp
from vlib.symx import SInt, mkbool

ID = 'C15'

MANIFEST = {
    'engine': 'symx',
    'text': 'Bounded symbolic model checking of the real count-min sketch source (cms_hash, _add, add, batch_add, query): the hash value of every item (opaque items: any 64-bit value; int items: the value is symbolic and its hash follows the CPython rule, -1 -> -2, reduction mod 2^61-1), the per-row seeds, the item chosen at every update and its non-negative weight are symbolic; after every prefix of the stream z3 shows true weight <= query(x) <= total weight and that every row sums to the total. The bounded counter is driven through every item stream within the bound (items chosen by solver decisions) against an exact recount. The same three bounded-counter clauses are also explored through compute_cardinalities over every split of a 4-value stream into mini-batches; fixed-width (uint32) array arithmetic wraps as in numpy.',
    'note': 'Streams of <=3 (quick) / <=4 (thorough) updates over 3 items, depth<=2, width<=3, weights 0..5; int32 cell overflow outside (totals < 2^31); the numba-level integer arithmetic of cms_hash is validated against the Python-level model ((hash mod 2^32)+seed) mod width on concrete boundary values before the symbolic run; batch_add of the bounded counter is outside (the statement says item by item).',
    'technique': 'symbolic execution of the real Python source with z3 (hash values and seeds as unconstrained 32-bit integers, matrix cells as If-merged terms)',
}

BOUNDS = {
    'quick': {'cms': [(1, 1, 3), (1, 2, 3), (2, 2, 2), (2, 3, 3)], 'counter': [(4, 3)]},
    'thorough': {'cms': [(1, 1, 5), (1, 3, 5), (2, 2, 5), (2, 3, 5), (3, 2, 4), (3, 4, 4), (2, 5, 4)], 'counter': [(6, 4), (7, 3)]},
}
NITEMS = 3
WMAX = 5

INFO = {
    'engine': 'symx + z3',
    'explanation': 'CMS: object built directly (depth, width concrete per job; seeds symbolic uint32; zero matrix), builtin hash replaced by a symbolic function of the item, '
                   'updates merge into If-terms; bounds checked by z3 after every prefix. Counter: stream chosen by solver decisions, compared with an exact recount.',
    'bounds': {t: {'cms': [f'depth={d},width={w},{s} updates over {NITEMS} items, weights 0..{WMAX}' for d, w, s in b['cms']],
                   'counter': [f'{s} items over 4 values, bound 0..{bd}' for s, bd in b['counter']]} for t, b in BOUNDS.items()},
    'outside': ['int32 overflow of matrix cells', 'width up to 2^15 / depth up to 8 (argued: rows are independent and the bound argument is per cell)', 'PrimitiveConstrainedCounter.batch_add'],
    'assumptions': ['hash is a function of the item (same value at update and query)', 'compiled cms_hash == ((hash(x) mod 2^32) + seed) mod width (validated on concrete boundary values in every run)'],
    'job_timeout': {'quick': 200, 'thorough': 1800},
}


class Mat:
    """2-D count matrix: list of xnp.Arr rows; M[i, j] and M[i][j]"""

    def __init__(self, d, w):
        self.rows = [xnp.Arr([0] * w, 'int32') for _ in range(d)]

    def __getitem__(self, k):
        if isinstance(k, tuple):
            if isinstance(k[0], xnp.Arr):          # M[row index array, column index array]
                return xnp.Arr([self.rows[int(i)][j] for i, j in zip(k[0].data, k[1].data)], 'int32')
            return self.rows[k[0]][k[1]]
        return self.rows[k]

    def __setitem__(self, k, v):
        i, j = k
        self.rows[i][j] = v


class Item:
    def __init__(self, h):
        self.h = h


PYHASH_P = 2 ** 61 - 1


class IntItem(Item):
    """an item that IS a Python int (value v symbolic): hash(v) = sign(v) * (|v| mod (2^61 - 1)), with -1 mapped to -2 (CPython);
    inside the loaded module isinstance(item, int), int(item) and hash(item) behave as for that int"""

    def __init__(self, v):
        self.v = v
        h = z3.IntVal(hash(INT_VALUES[-1]))
        for c in INT_VALUES[-2::-1]:
            h = z3.If(v.e == c, z3.IntVal(hash(c)), h)      # the value ranges over INT_VALUES: its hash is CPython's own hash() of each
        self.h = SInt.mk(h, -PYHASH_P, PYHASH_P)


# int items take their value from here: small values (incl. -1, whose hash is -2), values around the hash modulus and around 2^32
INT_VALUES = sorted(set(list(range(-3, 4)) + [s * (PYHASH_P + k) for s in (1, -1) for k in range(-2, 3)] + [2 ** 32 + k for k in range(-2, 3)]))


def _isinstance(o, t):
    ts = tuple(int if x is _int else x for x in (t if isinstance(t, tuple) else (t,)))      # inside the module the name int is _int
    t = ts if isinstance(t, tuple) else ts[0]
    if isinstance(o, IntItem):
        return any(x is int or getattr(x, '__name__', '') in ('integer', 'int64', 'signedinteger') for x in ts)
    return isinstance(o, t)


def _int(x, *a):
    return x.v if isinstance(x, IntItem) else int(x, *a)


def load_cms():
    npm = types.ModuleType('numpy')
    npm.uint32 = lambda x: x % (2 ** 32)
    npm.int32 = 'int32'
    npm.integer = type('integer', (), {})
    npm.zeros = lambda shape, dtype=None: Mat(*shape)
    npm.array = lambda x, dtype=None: x
    npm.arange = xnp.arange
    npm.int64 = lambda x: x
    npm.fromiter = lambda it, dtype=None, count=-1: xnp.Arr(list(it), 'int64')
    npm.random = types.SimpleNamespace(randint=lambda **k: [0] * k['size'])
    ns = loader.load('outrank/algorithms/sketches/counting_cms.py', shims={'numpy': npm, 'numba': loader.numba_stub()},
                     extra={'hash': lambda it: it.h, 'isinstance': _isinstance, 'int': _int}, record=['cms_hash', 'CountMinSketch', 'CountMinSketch._add', 'CountMinSketch.add', 'CountMinSketch.batch_add', 'CountMinSketch.query'])
    return ns


def validate_cms_hash():
    """compiled cms_hash vs the Python-level model on boundary values (stand-in validation)"""
    loader.use_repo_on_syspath()
    import numpy as np
    from outrank.algorithms.sketches import counting_cms as real
    bad = []
    for x in [0, 1, -1, 2 ** 31 - 1, 2 ** 31, 2 ** 32 - 1, 2 ** 32, 2 ** 32 + 5, -2 ** 31, 2 ** 40 + 3, 'a', 'foo', '']:
        for seed in [0, 1, 2 ** 31 - 2, 2 ** 32 - 1, 123456789]:
            for width in [1, 2, 3, 7, 2 ** 15]:
                got = int(real.cms_hash(x, np.uint32(seed), width))
                exp = ((hash(x) % 2 ** 32) + seed) % width
                if got != exp:
                    bad.append((x, seed, width, got, exp))
    return bad


def jobs(tier):
    bad = validate_cms_hash()
    if bad:
        raise symx.HarnessError(f'compiled cms_hash disagrees with the Python-level model: {bad[:3]}')
    out = []
    for d, w, s in BOUNDS[tier]['cms']:
        out.append({'cond': 'cms', 'd': d, 'w': w, 's': s, 'weight': (w ** d) ** NITEMS * s, 'label': f'd={d},w={w},s={s}'})
        if (d, w, s) in BOUNDS[tier]['cms'][1:3]:
            out.append({'cond': 'cms', 'd': d, 'w': w, 's': s, 'ints': True, 'weight': (w ** d) ** NITEMS * s, 'label': f'd={d},w={w},s={s}, int items (value symbolic, CPython int hash)'})
    for s, bd in BOUNDS[tier]['counter']:
        for b in range(bd + 1):
            out.append({'cond': 'counter', 's': s, 'bound': b, 'weight': 4 ** s, 'label': f's={s},bound={b}'})
    for b in (1, 2, 3):
        out.append({'cond': 'pipeline-counter', 's': 4, 'bound': b, 'weight': 5 ** 4 * 4, 'label': f'pipeline-counter,bound={b}'})
    return out


def run_cms(job):
    d, w, S = job['d'], job['w'], job['s']
    ns = load_cms()
    CMS = ns['CountMinSketch']
    st = {}

    def setup(ctx):
        st['h'] = [z3.Int(f'h{i}') for i in range(NITEMS)]
        for v in st['h']:
            ctx.assume(v >= -2 ** 63, v < 2 ** 63)
        if job.get('ints'):
            # int items: h{i} is the int's VALUE
            for v in st['h']:
                ctx.assume(z3.Or([v == c for c in INT_VALUES]))
        st['seed'] = [z3.Int(f'seed{i}') for i in range(d)]
        for v in st['seed']:
            ctx.assume(v >= 0, v < 2 ** 32)
        st['idx'] = [z3.Int(f'i{k}') for k in range(S)]
        st['wt'] = [z3.Int(f'w{k}') for k in range(S)]
        for v in st['idx']:
            ctx.assume(v >= 0, v < NITEMS)
        for v in st['wt']:
            ctx.assume(v >= 0, v <= WMAX)

    PAIR = d == 1 or w <= 2      # odd steps add a batch of TWO items where the solver copes with it (the cells are sums of ite-chains mod width)

    def wit(m):
        g = lambda v: m.eval(v, model_completion=True).as_long()
        return {'cond': 'cms', 'd': d, 'w': w, 'pair': PAIR, 'ints': bool(job.get('ints')), 'hash': [g(v) for v in st['h']], 'seeds': [g(v) for v in st['seed']],
                'stream': [[g(i), g(x)] for i, x in zip(st['idx'], st['wt'])]}

    def body(ctx, out):
        o = object.__new__(CMS)
        o.depth, o.width = d, w
        o.hash_seeds = xnp.Arr([SInt(v, 0, 2 ** 32 - 1) for v in st['seed']], 'uint32')      # a uint32 numpy array in the real object
        o.M = Mat(d, w)
        mk = (lambda e: IntItem(SInt(e, -2 ** 63, 2 ** 63 - 1))) if job.get('ints') else (lambda e: Item(SInt(e, -2 ** 63, 2 ** 63 - 1)))
        items = [mk(h) for h in st['h']]
        for k in range(S):
            hk = st['h'][NITEMS - 1]
            for j in range(NITEMS - 2, -1, -1):
                hk = z3.If(st['idx'][k] == j, st['h'][j], hk)
            it = mk(hk)
            if k % 2 == 0:
                o.add(it, SInt(st['wt'][k], 0, WMAX))
            elif not PAIR:
                o.batch_add([it], SInt(st['wt'][k], 0, WMAX))
            else:
                # a batch of two items (this step's and the previous step's - possibly the same item, possibly colliding ones): each gets the weight
                hp = st['h'][NITEMS - 1]
                for j in range(NITEMS - 2, -1, -1):
                    hp = z3.If(st['idx'][k - 1] == j, st['h'][j], hp)
                o.batch_add([it, mk(hp)], SInt(st['wt'][k], 0, WMAX))
            total = z3.Sum([st['wt'][t] * (2 if (t % 2 and PAIR) else 1) for t in range(k + 1)])
            bad = []
            for i in range(d):
                bad.append(z3.Sum([symx.zint(c) for c in o.M.rows[i].data]) != total)
            out.never(ctx, z3.Or(bad), wit, f'a sketch row does not sum to the total weight after {k + 1} updates')
            for j in range(NITEMS):
                true_w = z3.Sum([z3.If(st['idx'][t] == j, st['wt'][t], 0) + (z3.If(st['idx'][t - 1] == j, st['wt'][t], 0) if (t % 2 and PAIR) else 0) for t in range(k + 1)])
                # query forks on the row-wise minimum; run it on a snapshot of the path
                q = o.query(items[j])
                qe = symx.zint(q)
                out.never(ctx, z3.Or(qe < true_w, qe > total), wit, f'query(item {j}) outside [true weight, total] after {k + 1} updates')
        out.sample({'depth': d, 'width': w, 'updates': S, 'decisions': len(ctx.trace)})
    return hutil.run_symx(job, setup, body)


def run_counter(job):
    S, B = job['s'], job['bound']
    ns = loader.load('outrank/algorithms/sketches/counting_counters_ordinary.py', record=['PrimitiveConstrainedCounter', 'PrimitiveConstrainedCounter.add'])
    PCC = ns['PrimitiveConstrainedCounter']
    VALS = ['a', 'b', '', 7]
    st = {}

    def setup(ctx):
        st['idx'] = [z3.Int(f'v{k}') for k in range(S)]
        for v in st['idx']:
            ctx.assume(v >= 0, v < len(VALS))

    def body(ctx, out):
        # a fresh copy of the class per path (nothing carried over between explored paths), and a history inside the path: another
        # counter of the same process was created and fed before this one - every counter counts its own stream only
        PCC = loader.load('outrank/algorithms/sketches/counting_counters_ordinary.py', record=[])['PrimitiveConstrainedCounter']
        other = PCC(B + 1)
        for v in ('a', 'zz', 7):
            other.add(v)
        c = PCC(B)
        seen = Counter()
        stream = []
        ok = True
        for k in range(S):
            v = VALS[int(SInt(st['idx'][k], 0, len(VALS) - 1))]
            stream.append(v)
            fewer = len(seen) < B or (v in seen and len(seen) <= B and False)
            c.add(v)
            seen[v] += 1
            dc = c.default_counter
            if any(dc[x] > seen[x] for x in dc) or len(dc) > B:
                ok = False
            if len(seen) < B and dict(dc) != dict(seen):
                ok = False
        if ok and not out.twin:
            out.concrete_ok()
        else:
            out.concrete_fail({'cond': 'counter', 'bound': B, 'stream': [VALS.index(v) for v in stream]}, 'bounded counter over-counts / not exact below the bound / tracks too many values')
        out.sample({'bound': B, 'stream': [str(v) for v in stream]})
    return hutil.run_symx(job, setup, body)


def pc_problem(cr, cu, C13, stream, cuts, B):
    """two columns per batch: the explored one and, after it, a narrow one (x / y); each column's counter answers for its own stream"""
    narrow = ['x' if i % 2 == 0 else 'y' for i in range(len(stream))]
    got = C13.run_batches(cr, cu, [[v, nv] for v, nv in zip(stream, narrow)], ['fa', 'fz'], cuts, 1, ',{}', hist_bound=B)
    for col, vals in (('fa', stream), ('fz', narrow)):
        dc, seen = got['hist'][col], Counter(vals)
        if any(dc[x] > seen[x] for x in dc) or len(dc) > B or (len(seen) < B and dict(dc) != dict(seen)):
            return f'column {col}: tracked {dict(dc)} vs exact {dict(seen)} with bound {B}'
    return None


def run_pipeline_counter(job):
    """the bounded counter as the pipeline feeds it (compute_cardinalities over a history of mini-batches): same three clauses"""
    from harness import C13
    from harness import pipeline as PL
    cr, cu, tr, ie = PL.real_modules()
    loader.record_functions('outrank/core_ranking.py', ['compute_cardinalities'])
    VALS = ['a', 'b', 'c', 'd', '']
    S, B = job['s'], job['bound']
    comps = C13.compositions(S)
    st = {}

    def setup(ctx):
        st['idx'] = [z3.Int(f'v{k}') for k in range(S)]
        for v in st['idx']:
            ctx.assume(v >= 0, v < len(VALS))
        st['comp'] = z3.Int('comp')
        ctx.assume(st['comp'] >= 0, st['comp'] < len(comps))

    def body(ctx, out):
        stream = [VALS[int(SInt(v, 0, len(VALS) - 1))] for v in st['idx']]
        cuts = comps[int(SInt(st['comp'], 0, len(comps) - 1))]
        rows = [[v] for v in stream]
        w = {'cond': 'pipeline-counter', 'bound': B, 'stream': stream, 'cuts': cuts}
        try:
            p = pc_problem(cr, cu, C13, stream, cuts, B)
            probs = [p] if p else []
        except Exception as e:
            probs = [f'{type(e).__name__}: {e}']
        if probs or out.twin:
            out.concrete_fail(w, probs[0] if probs else 'twin')
        else:
            out.concrete_ok()
        out.sample(w)
    return hutil.run_symx(job, setup, body)


def run_job(job):
    if job['cond'] == 'pipeline-counter':
        return run_pipeline_counter(job)
    return run_cms(job) if job['cond'] == 'cms' else run_counter(job)


def replay(w):
    loader.use_repo_on_syspath()
    if w['cond'] == 'pipeline-counter':
        from harness import C13
        from harness import pipeline as PL
        cr, cu, tr, ie = PL.real_modules()
        p = pc_problem(cr, cu, C13, w['stream'], w['cuts'], w['bound'])
        if p:
            return {'reproduced': True, 'signature': 'C15:bounded-counter-in-pipeline', 'what': f'compute_cardinalities over batches {w["cuts"]} of {w["stream"]} (plus a narrow second column) with bound {w["bound"]}: {p}'}
        return {'reproduced': False, 'what': 'within contract'}
    if w['cond'] == 'counter':
        import importlib
        import outrank.algorithms.sketches.counting_counters_ordinary as _m
        PCC = importlib.reload(_m).PrimitiveConstrainedCounter      # a fresh copy of the class, then the same history as explored
        VALS = ['a', 'b', '', 7]
        other = PCC(w['bound'] + 1)
        for v in ('a', 'zz', 7):
            other.add(v)
        c = PCC(w['bound'])
        seen = Counter()
        for i in w['stream']:
            c.add(VALS[i])
            seen[VALS[i]] += 1
            dc = c.default_counter
            if any(dc[x] > seen[x] for x in dc) or len(dc) > w['bound'] or (len(seen) < w['bound'] and dict(dc) != dict(seen)):
                return {'reproduced': True, 'signature': 'C15:bounded-counter', 'what': f'bound {w["bound"]}, stream {[VALS[i] for i in w["stream"]]} (after another counter of the process was fed a, zz, 7): tracked {dict(dc)} vs exact {dict(seen)}'}
        return {'reproduced': False, 'what': 'counter within its contract'}
    import numpy as np
    from outrank.algorithms.sketches.counting_cms import CountMinSketch
    d, wd = w['d'], w['w']
    cms = CountMinSketch(d, wd)
    cms.hash_seeds = np.array(w['seeds'], dtype=np.uint32)
    # ints hash to themselves (mod 2^61-1), so an int item realises any wanted hash value modulo 2^32
    items = list(w['hash']) if w.get('ints') else [h % (2 ** 32) for h in w['hash']]
    true = Counter()
    total = 0
    for k, (i, wt) in enumerate(w['stream']):
        if k % 2 == 0:
            cms.add(items[i], wt)
        elif not w.get('pair'):
            cms.batch_add([items[i]], wt)
        else:
            prev = items[w['stream'][k - 1][0]]
            cms.batch_add([items[i], prev], wt)
            true[prev] += wt
            total += wt
        true[items[i]] += wt
        total += wt
        rows = [int(r.sum()) for r in cms.M]
        if any(r != total for r in rows):
            return {'reproduced': True, 'signature': 'C15:cms-row-sum', 'what': f'depth {d}, width {wd}, seeds {w["seeds"]}: after {k + 1} updates row sums {rows} != total {total}'}
        for it in set(items):
            q = int(cms.query(it))
            if q < true[it] or q > total:
                return {'reproduced': True, 'signature': 'C15:cms-bounds', 'what': f'depth {d}, width {wd}, seeds {w["seeds"]}, items {items}, stream {w["stream"]}: query({it}) = {q}, true weight {true[it]}, total {total}'}
    return {'reproduced': False, 'what': 'all bounds hold on the real sketch'}
