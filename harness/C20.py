"""C20 - derived synthetic structure (duplicates, combinations, labels, noise, down-sampling) is as declared (symx; Pearson clause out of reach)."""
from __future__ import annotations

import math

import numpy as np
import z3

from harness import gen as G
from vlib import hutil, loader, symx
from vlib.symx import SInt

ID = 'C20'

MANIFEST = {
    'engine': 'symx',
    'text': 'Bounded symbolic exploration of the real generator source on the real numpy with every random draw decided by the solver (RNG stub) and the index selections, class counts, class distributions (as float, list and ndarray), noise levels, label vectors and down-sampling sizes chosen by the solver: duplicates are exact copies and the self-description lists exactly the appended column indices; combinations equal the stated function and record the appended index; correlated features only: shape and recorded indices; quantile labels are a monotone step function of the decision value with the requested class sizes whenever the cumulative proportions hit whole numbers of tie-free samples; categorical noise changes at most floor(p*n) cells per feature and only to values of that feature\'s own value set, missing-type noise writes exactly floor(p*n) markers per feature, both leave the input untouched; down-sampling returns exactly n original rows of every class and refuses n above the minority size. Missing-type noise is also applied to a float64 copy of the data (input must stay untouched); labels are checked for up to 63 classes. Duplicates, combinations and correlated features are also generated from the same data set shifted to the top of the int32 range (sums beyond 2^31).',
    'note': 'The Pearson-correlation clause of generate_correlated is NOT proved: it is only evaluated numerically (tolerance 1e-6) on every 4-sample source over {0,1,2} paired with a second column (condition pearson); a symbolic treatment is out of reach: the construction is a rational function with square roots in >= 7 real unknowns already at n = 3; z3 4.8/5.1 and cvc5 give no answer within 60 s on the hand-simplified identity (DESIGN 2.7). The k-means label path (sklearn FFI) is outside. <=5 samples x 3 features, <=3 classes; missing-type noise is exercised with an explicit integer marker.',
    'technique': 'solver-driven bounded exploration of the real Python code on real numpy with a nondeterministic RNG stub (every draw and every configuration choice a solver decision; coverage certificate)',
}

BOUNDS = {'quick': 1, 'thorough': 2}
INFO = {
    'engine': 'symx + z3 (choices and draws concretised by decisions) + real numpy',
    'explanation': 'see level text',
    'bounds': {t: '4-5 samples x 1-3 features, index selections of 1-2 columns, 2-3 classes, p on a grid, noise levels {0, 0.2, 0.4, 0.6} on 5 rows with two classes of >= 2 samples each' for t in BOUNDS},
    'outside': ['Pearson correlation of generate_correlated (nonlinear real arithmetic out of reach)', 'k-means label path', 'default missing marker -inf on integer data', 'categorical noise on label vectors with a single-sample class or non-contiguous class ids (the function raises there; see DESIGN)'],
    'assumptions': ['RNG stub: choice returns elements (without repetition when replace=False), shuffle any permutation', 'sklearn.utils.resample is the real function'],
    'job_timeout': {'quick': 300, 'thorough': 1800},
    'max_replays': 10, 'max_replays_per_cond': 4,
}

BIG = 1_500_000_000
X0 = np.array([[1, 10, 5], [2, 20, 5], [3, 10, 6], [4, 30, 7], [0, 20, 6]], dtype='int32')
SELS = [0, 2, [1], [0, 2], [2, 1], np.array([0, 1])]
P3 = [[0.25, 0.25, 0.5], [0.5, 0.25, 0.25], [0.25, 0.5, 0.25]]
NOISE_P = [0.0, 0.2, 0.4, 0.6]
# label vectors for the noise clauses: classes 0..k-1, every class with at least two samples (5 rows: two classes)
YS = [[0, 0, 1, 1, 1], [1, 0, 1, 0, 0], [0, 1, 0, 1, 0], [1, 1, 0, 0, 1], [0, 0, 0, 1, 1], [1, 0, 0, 1, 1]]


def xor_(x):
    return np.bitwise_xor(x[:, 0], x[:, 1]) if x.shape[1] > 1 else x[:, 0]


def new_cc(CC):
    return CC(seed=5)


def as_list(sel):
    return [int(sel)] if isinstance(sel, (int, np.integer)) else [int(v) for v in sel]


def check_dup(cc, X, sel):
    Xb = X.copy()
    R = cc.generate_duplicates(X, sel)
    idx = as_list(sel)
    probs = []
    if R.shape != (X.shape[0], X.shape[1] + len(idx)) or (R[:, :X.shape[1]] != Xb).any():
        probs.append(f'result shape {R.shape} / original columns changed')
    elif any((R[:, X.shape[1] + k] != Xb[:, j]).any() for k, j in enumerate(idx)):
        probs.append('appended columns are not exact copies of their sources')
    info = cc.dataset_info['duplicates'][-1]
    rec = [int(v) for v in np.atleast_1d(info['duplicate_indices'])]
    exp = list(range(X.shape[1], X.shape[1] + len(idx)))
    if rec != exp:
        probs.append(f'self-description lists duplicate columns {rec}, the appended columns are {exp}')
    return probs


def check_comb(cc, X, sel, kind):
    idx = as_list(sel)
    if kind == 'xor' and len(idx) < 2:
        return []
    kw = {'combination_type': kind} if kind in ('linear', 'nonlinear') else {'combination_function': cc._xor}
    R = cc.generate_combinations(X, idx, **kw)
    S = X[:, idx].astype(np.int64)      # the stated function on the VALUES (exact integer sum), whatever the storage width of the data set
    exp = {'linear': lambda: np.sum(S, axis=1), 'nonlinear': lambda: np.sin(np.sum(S, axis=1)), 'xor': lambda: np.bitwise_xor.reduce(S.astype(int), axis=1)}[kind]()
    probs = []
    if R.shape != (X.shape[0], X.shape[1] + 1) or not np.allclose(R[:, -1], exp) or not np.allclose(R[:, :-1], X):
        probs.append(f'appended column {R[:, -1].tolist()} is not the stated function {np.asarray(exp).tolist()} of columns {idx}')
    info = cc.dataset_info['combinations'][-1]
    if info['combination_ix'] != X.shape[1] or list(info['feature_indices']) != idx:
        probs.append(f'self-description {info} does not name the appended column {X.shape[1]} / sources {idx}')
    return probs


def check_corr(cc, X, sel):
    idx = as_list(sel)
    R = cc.generate_correlated(X.astype(float), sel, r=0.5)
    info = cc.dataset_info['correlations'][-1]
    rec = [int(v) for v in np.atleast_1d(info['correlated_indices'])]
    exp = list(range(X.shape[1], X.shape[1] + len(idx)))
    probs = []
    if R.shape != (X.shape[0], X.shape[1] + len(idx)) or not np.allclose(R[:, :X.shape[1]], X):
        probs.append(f'result shape {R.shape} / original columns changed')
    if rec != exp:
        probs.append(f'self-description lists correlated columns {rec}, the appended columns are {exp}')
    return probs


def check_labels(cc, dvals, n, p):
    X = np.array([[v] for v in dvals], dtype=float)
    y = np.asarray(cc.generate_labels(X, n=n, p=p, decision_function=dec_first))
    N = len(dvals)
    probs = []
    for i in range(N):
        for j in range(N):
            if dvals[i] <= dvals[j] and y[i] > y[j]:
                probs.append(f'labels {y.tolist()} are not monotone in the decision values {dvals}')
                return probs
    plist = [float(v) for v in (p if isinstance(p, (list, np.ndarray)) else ([p, 1 - p] if n == 2 else [1.0 / n] * n))]
    if n == 2 and isinstance(p, (list, np.ndarray)):
        plist = [float(p[0]), 1 - float(p[0])]
    cum = 0.0
    sizes_ok = True
    exp_sizes = []
    for k in range(n):
        c = plist[k] * N
        if abs(c - round(c)) > 1e-9:
            sizes_ok = False
        exp_sizes.append(int(round(c)))
    if sizes_ok and sum(exp_sizes) == N and len(set(dvals)) == N:
        got = [int((y == k).sum()) for k in range(n)]
        if got != exp_sizes:
            probs.append(f'class sizes {got} for requested distribution {plist} over {N} tie-free samples (expected {exp_sizes}); p passed as {type(p).__name__}')
    return probs


def dec_first(x):
    return x[:, 0]


def check_labels_many(cc, n):
    """n classes, uniform scalar p, 2n tie-free samples: labels within 0..n-1, monotone, two samples per class"""
    N = 2 * n
    m = next(k for k in range(7, 7 + N + 2) if math.gcd(k, N) == 1)
    dv = [float((i * m) % N) + 0.5 for i in range(N)]          # a permutation of N distinct values
    X = np.array([[v] for v in dv], dtype=float)
    y = np.asarray(cc.generate_labels(X, n=n, p=1.0 / n, decision_function=dec_first))
    probs = []
    if y.min() < 0 or y.max() > n - 1:
        probs.append(f'{n} classes requested, labels range over {int(y.min())}..{int(y.max())}')
    order = np.argsort(dv)
    if any(y[order[i]] > y[order[i + 1]] for i in range(N - 1)):
        probs.append('labels are not monotone in the decision value')
    sizes = [int((y == k).sum()) for k in range(n)]
    if not probs and sizes != [2] * n:
        probs.append(f'class sizes {sizes} for a uniform distribution over {N} tie-free samples (2 per class expected)')
    return probs


def check_pearson(cc, cols, r):
    """numeric evaluation of the correlation clause on a small integer data set (NOT a proof over the reals): each generated column
    has Pearson correlation r with its (non-constant) source"""
    X = np.array(cols, dtype=float).T
    sel = list(range(X.shape[1]))
    R = cc.generate_correlated(X, sel if len(sel) > 1 else sel[0], r=r)
    probs = []
    for k, j in enumerate(sel):
        src = X[:, j]
        if len(set(src.tolist())) < 2:
            continue
        c = float(np.corrcoef(src, R[:, X.shape[1] + k])[0, 1])
        if not abs(c - r) <= 1e-6:
            probs.append(f'generated column for source {src.tolist()} has Pearson correlation {c:.6f} with it, requested {r}')
    return probs


def check_noise(cc, X, y, p, typ, rng=None):
    Xb = X.copy()
    n = X.shape[0]
    k = int(n * p)
    probs = []
    if typ == 'categorical':
        R = cc.generate_noise(X, y, p=p, type='categorical')
        if (X != Xb).any():
            probs.append('input data set was modified')
        if R.shape != X.shape:
            probs.append(f'shape {R.shape}')
        else:
            for j in range(X.shape[1]):
                changed = int((R[:, j] != Xb[:, j]).sum())
                if changed > k:
                    probs.append(f'feature {j}: {changed} cells changed, at most floor(p*n) = {k} allowed')
                if not set(R[:, j].tolist()) <= set(Xb[:, j].tolist()):
                    probs.append(f'feature {j}: new values {sorted(set(R[:, j].tolist()) - set(Xb[:, j].tolist()))} are not values of that feature')
    else:
        state0 = rng.state if rng is not None else None
        R = cc.generate_noise(X, y, p=p, type='missing', missing_val=-1)
        if (X != Xb).any():
            probs.append('input data set was modified')
        Xf = Xb.astype(float)          # data sets that went through generate_correlated / nonlinear combinations are float64
        Xf0 = Xf.copy()
        if rng is not None:
            rng.state = state0          # same generator state: the float64 run sees the same draws (no new solver decisions)
        Rf = cc.generate_noise(Xf, y, p=p, type='missing', missing_val=-1)
        if (Xf != Xf0).any():
            probs.append('input data set (float64) was modified by missing-type noise')
        if any(int((Rf[:, j] == -1).sum()) != k for j in range(Xf.shape[1])):
            probs.append(f'float64 input: not exactly floor(p*n) = {k} markers per feature')
        for j in range(X.shape[1]):
            m = int((R[:, j] == -1).sum())
            if m != k or ((R[:, j] != -1) & (R[:, j] != Xb[:, j])).any():
                probs.append(f'feature {j}: {m} missing markers, exactly floor(p*n) = {k} expected (other cells unchanged)')
    return probs


def check_down(cc, X, y, n):
    from collections import Counter
    cnt = Counter(int(v) for v in y)
    try:
        Xd, yd = cc.downsample_dataset(X, np.array(y), n=n, seed=3)
    except ValueError:
        return [] if n > min(cnt.values()) else ['ValueError although n does not exceed the minority class size']
    if n > min(cnt.values()):
        return [f'n = {n} exceeds the minority class size {min(cnt.values())} but no error was raised']
    probs = []
    got = Counter(int(v) for v in yd)
    if any(got[c] != n for c in cnt) or len(yd) != n * len(cnt) or Xd.shape != (n * len(cnt), X.shape[1]):
        probs.append(f'class sizes after down-sampling {dict(got)}, exactly {n} per class expected')
    else:
        rows = {c: {tuple(X[i]) for i in range(len(y)) if y[i] == c} for c in cnt}
        if any(tuple(int(v) for v in Xd[i]) not in rows[int(yd[i])] for i in range(len(yd))):
            probs.append('a down-sampled row is not an original row of its class')
    return probs


def jobs(tier):
    out = []
    out.append({'cond': 'labels-many', 'pins': {}, 'weight': 100, 'label': 'labels-many'})
    for ri in range(3):
        out.append({'cond': 'pearson', 'pins': {'b': ri}, 'weight': 800, 'label': f'pearson r={[0.8, -0.5, 0.3][ri]}'})
    for c in ('duplicates', 'combinations', 'correlated', 'labels2', 'labels3', 'noise-categorical', 'noise-missing', 'downsample'):
        if c.startswith('noise'):
            for pi in range(len(NOISE_P)):
                for yi in (range(len(YS)) if c == 'noise-categorical' else (0,)):      # the label vector is not used by missing-type noise
                    out.append({'cond': c, 'pins': {'p': pi, 'a': yi}, 'weight': 500 * (pi + 1), 'label': f'{c},p={NOISE_P[pi]},y={YS[yi]}'})
        else:
            out.append({'cond': c, 'pins': {}, 'weight': 100, 'label': c})
    return out


def run_job(job):
    cond = job['cond']
    CC = G.load_cc()
    st = {}

    def setup(ctx):
        st['a'] = z3.Int('a')
        st['b'] = z3.Int('b')
        st['p'] = z3.Int('p')
        st['y'] = [z3.Int(f'y{i}') for i in range(5)]
        ctx.assume(st['a'] >= 0, st['a'] < 8, st['b'] >= 0, st['b'] < 4, st['p'] >= 0, st['p'] < 8)
        for v in st['y']:
            ctx.assume(v >= 0, v <= 2)
        if cond in ('duplicates', 'combinations', 'correlated'):
            ctx.assume(st['y'][0] <= 1)
        for k, v in job['pins'].items():
            ctx.assume(z3.Int(k) == v)

    def body(ctx, out):
        G.RNGI.reset_path()
        G.RNG.FIX_MODE_DRAW = False
        G.RNG.FEW_SHUFFLES = False
        cc = new_cc(CC)
        X = X0.copy()
        w = {'cond': cond}
        if cond in ('duplicates', 'combinations', 'correlated'):
            si = int(SInt(st['a'], 0, 7)) % len(SELS)
            sel = SELS[si]
            w['sel'] = si
            # the same data set shifted to the top of the 32-bit range (random_values with large bounds / explicit large domains)
            w['big'] = int(SInt(st['y'][0], 0, 2)) % 2
            X = X + np.int32(BIG * w['big'])
            if cond == 'duplicates':
                probs = check_dup(cc, X, sel)
            elif cond == 'correlated':
                probs = check_corr(cc, X, sel)
            else:
                kind = ['linear', 'nonlinear', 'xor'][int(SInt(st['b'], 0, 3)) % 3]
                w['kind'] = kind
                probs = check_comb(cc, X, sel, kind)
        elif cond == 'labels-many':
            n = 2 + int(SInt(st['y'][0], 0, 2)) + 3 * int(SInt(st['p'], 0, 7)) + 24 * int(SInt(st['b'], 0, 3)) % 48
            n = 2 + (int(SInt(st['a'], 0, 7)) * 8 + int(SInt(st['p'], 0, 7))) % 62
            w['n'] = n
            probs = check_labels_many(cc, n)
        elif cond == 'pearson':
            r = [0.8, -0.5, 0.3][int(SInt(st['b'], 0, 3)) % 3]
            vals = [int(SInt(v, 0, 2)) for v in st['y'][:4]]
            second = [[5, 9, 2, 7], [0, 0, 1, 3]][int(SInt(st['a'], 0, 7)) % 2]
            cols = [vals, second]
            w.update({'r': r, 'cols': cols})
            probs = check_pearson(cc, cols, r)
        elif cond in ('labels2', 'labels3'):
            perm = int(SInt(st['a'], 0, 7))
            dv = [[3.0, 1.0, 4.0, 2.0], [1.0, 2.0, 3.0, 4.0], [4.0, 3.0, 2.0, 1.0], [2.5, 7.0, -1.0, 0.0], [1.0, 1.0, 2.0, 2.0], [5.0, 5.0, 5.0, 1.0], [0.0, 10.0, 20.0, 30.0], [2.0, 1.0, 2.0, 3.0]][perm]
            form = int(SInt(st['b'], 0, 3)) % 3          # float / list / ndarray
            pi = int(SInt(st['p'], 0, 7))
            if cond == 'labels2':
                pv = [0.25, 0.5, 0.75, 0.5][pi % 4]
                p = [pv, [pv, 1 - pv], np.array([pv, 1 - pv])][form]
                n = 2
            else:
                pl = P3[pi % 3]
                p = [1.0 / 3, list(pl), np.array(pl)][form]
                n = 3
            w.update({'dv': dv, 'n': n, 'form': form, 'p': (p.tolist() if isinstance(p, np.ndarray) else p)})
            probs = check_labels(cc, dv, n, p)
        elif cond.startswith('noise'):
            y = np.array(YS[int(SInt(st['a'], 0, 7)) % len(YS)])
            pi = int(SInt(st['p'], 0, 7)) % len(NOISE_P)
            p = NOISE_P[pi]
            ncols = 2 if (pi <= 1 or cond == 'noise-missing') else 1      # features are processed one by one by the same code
            X = X0[:5, [1, 2][:ncols]].copy()
            w.update({'y': y.tolist(), 'p': p, 'ncols': ncols})
            try:
                probs = check_noise(cc, X, y, p, 'categorical' if cond == 'noise-categorical' else 'missing', rng=G.RNGI)
            except Exception as e:
                probs = [f'{type(e).__name__}: {e}']
            w['draws'] = [v for _, v in G.RNGI.log]
        else:
            y = [int(SInt(v, 0, 2)) for v in st['y']]
            n = 1 + int(SInt(st['b'], 0, 3)) % 3
            w.update({'y': y, 'n': n})
            probs = check_down(cc, X, y, n)
        if probs or out.twin:
            out.concrete_fail(w, probs[0] if probs else 'twin')
        else:
            out.concrete_ok()
        out.sample({k: v for k, v in w.items() if k != 'draws'})
    return hutil.run_symx(job, setup, body, wit=None)


def replay(w):
    loader.use_repo_on_syspath()
    from outrank.algorithms.synthetic_data_generators.cc_generator import CategoricalClassification as CC
    c = w['cond']
    X = X0.copy()
    try:
        if c in ('duplicates', 'combinations', 'correlated'):
            cc = CC(seed=1)
            sel = SELS[w['sel']]
            X = X + np.int32(BIG * w.get('big', 0))
            probs = check_dup(cc, X, sel) if c == 'duplicates' else (check_corr(cc, X, sel) if c == 'correlated' else check_comb(cc, X, sel, w['kind']))
        elif c == 'labels-many':
            probs = check_labels_many(CC(seed=1), w['n'])
        elif c == 'pearson':
            probs = []
            for seed in range(5):
                probs = check_pearson(CC(seed=seed), w['cols'], w['r'])
                if probs:
                    break
        elif c.startswith('labels'):
            cc = CC(seed=1)
            p = w['p']
            if w['form'] == 2:
                p = np.array(p)
            probs = check_labels(cc, w['dv'], w['n'], p)
        elif c.startswith('noise'):
            probs = []
            for seed in range(200):
                cc = CC(seed=seed)
                np.random.seed(seed)
                probs = check_noise(cc, X0[:5, [1, 2][:w.get('ncols', 2)]].copy(), np.array(w['y']), w['p'], 'categorical' if c == 'noise-categorical' else 'missing')
                if probs:
                    probs = [f'seed {seed}: ' + probs[0]]
                    break
        else:
            cc = CC(seed=1)
            probs = check_down(cc, X, w['y'], w['n'])
    except Exception as e:
        import traceback
        tb = traceback.extract_tb(e.__traceback__)[-1]
        return {'reproduced': True, 'signature': f'C20:{c}:exception:{type(e).__name__}', 'what': f'{c} {({k: v for k, v in w.items() if k not in ("draws", "label")})}: {type(e).__name__}: {e} ({tb.name}:{tb.lineno})'}
    if probs:
        key = 'self-description' if 'self-description' in probs[0] else ('ndarray-distribution' if "ndarray" in probs[0] and 'class sizes' in probs[0] else probs[0].split()[0])
        return {'reproduced': True, 'signature': f'C20:{c}:{key}', 'what': f'{c} {({k: v for k, v in w.items() if k not in ("draws", "label")})}: {probs[0]}'}
    return {'reproduced': False, 'what': 'as declared'}
